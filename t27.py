import sys,os,glob,time
sys.path.insert(0,'/verif')
from rules import core, charmap
from rules import facts as F
d,_=F.ensure_facts(['cli'])
P=core.Program('cli',d['cli'])
t=time.time()
for r in charmap.rule_json_decoder({'cli':P},'quick'):
    for v in r.violations: print(v.key,'|',v.msg[:300])
    print(r.instances[-1:], time.time()-t)
