#!/bin/bash
# run every registered check (quick tier) and print one summary line each
cd /verif
for id in $(python3 -c "
import json
for c in json.load(open('MANIFEST.json'))['checks']: print(c['property_id'])"); do
  out=$(./check $id --tier ${1:-quick} 2>&1); rc=$?
  echo "$id rc=$rc $(echo "$out" | tail -1)"
  [ $rc -ne 0 ] && echo "$out" | grep -v "^KNOWN" | head -8
done
