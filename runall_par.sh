#!/bin/bash
# run every registered check of a tier, N at a time; one summary line each in $OUT
# usage: runall_par.sh [tier] [jobs] [outfile]
cd /verif
tier=${1:-quick}; jobs=${2:-4}; out=${3:-/dev/stdout}
ids=$(python3 -c "
import json
for c in json.load(open('MANIFEST.json'))['checks']: print(c['property_id'])")
run_one() {
  id=$1; tier=$2
  o=$(./check $id --tier $tier 2>&1); rc=$?
  { echo "$id rc=$rc $(echo "$o" | tail -1)"; [ $rc -ne 0 ] && echo "$o" | grep -v "^KNOWN" | head -12; } 
}
export -f run_one
# warm the fact cache once so parallel checks do not race on extraction
./check C31 --tier $tier > /dev/null 2>&1
echo $ids | tr ' ' '\n' | xargs -P $jobs -I{} bash -c "run_one {} $tier" >> $out
echo ALLDONE >> $out
