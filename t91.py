import sys,time,traceback
sys.path.insert(0,'/verif')
from rules import core, jqeval
from rules import facts as F
from rules.minimir import Interp, Slice
d,_=F.ensure_facts(['cli'])
P=core.Program('cli',d['cli'])
I=Interp(P,max_steps=30000000,max_depth=500)
I.features={"avx2":True,"bmi2":True,"sse4.1":True,"sse4.2":True,"ssse3":True,"sse2":True}
prog,doc=sys.argv[1],sys.argv[2]
pb=prog.encode()
pr=I.call("jq::parser::parse",[Slice(list(pb),0,len(pb))])
try:
    print(jqeval.run_pair(I,pr.fields[0],doc))
except Exception as e:
    print("ERR",repr(e)[:300])
    fr=sys.exc_info()[2]; out=[]
    while fr:
        f=fr.tb_frame
        if f.f_code.co_name=='run' and 'f' in f.f_locals: out.append(f.f_locals['f'].id)
        fr=fr.tb_next
    print(out[-5:])
    tb=traceback.extract_tb(sys.exc_info()[2])
    print([ (t.name,t.lineno) for t in tb[-4:]])
