import sys,os,glob,time,re
sys.path.insert(0,'/verif')
from rules import core
from rules.dataflow import backward_slice, local_defs_full, _fields_of
from rules.core import op_place
from rules import facts as F
d,_=F.ensure_facts(['cli'])
P=core.Program('cli',d['cli'])
SIGNED=('i8','i16','i32','i64','isize','i128')
n=0; flagged=0
for f in sorted(P.fns.values(), key=lambda f:f.id):
    if not re.search(r'^jq::', f.id): continue
    defs=local_defs_full(f)
    # find index uses: Index projection with local idx
    idx_locals=set()
    for bi,b in enumerate(f.blocks):
        for s in b['s']:
            if s[0]!='a': continue
            for pl in [s[1]]+[p for p in ([op_place(o) for o in (s[2][1:] if isinstance(s[2],list) else [])] if False else [])]:
                pass
            def scan_place(pl):
                for e in pl[1]:
                    if isinstance(e,list) and e[0]=='i': idx_locals.add((e[1], s[3]))
            scan_place(s[1])
            rv=s[2]
            if rv[0] in ('use','cast','un'):
                o=rv[1] if rv[0]=='use' else rv[2]
                p=op_place(o)
                if p: scan_place(p)
            if rv[0] in ('ref','ptr','disc'):
                scan_place(rv[2] if rv[0]!='disc' else rv[1])
    for c in f.calls:
        if (c.name.endswith('::index') or c.name.endswith('::index_mut') or c.name.endswith('get_unchecked')) and len(c.args)>=2:
            p=op_place(c.args[1])
            if p and not p[1] and f.locals[p[0]]=='usize': idx_locals.add((p[0], c.line))
    for (l,line) in idx_locals:
        sl=backward_slice(f,l,max_nodes=12,through_calls=False)
        # find IntToInt cast from signed
        hit=None
        for x in sl.locals:
            for bi,kind,p,wfp in defs.get(x,[]):
                if kind=='rv' and p[0]=='cast' and p[1]=='IntToInt':
                    q=op_place(p[2])
                    if q and f.locals[q[0]] in SIGNED and not q[1]:
                        hit=(q[0],bi)
        if hit:
            n+=1
            # signed operand derived from signed Rem?
            ssl=backward_slice(f,hit[0],max_nodes=8,through_calls=False)
            if 'Rem' in ssl.binops or 'Sub' in ssl.binops:
                flagged+=1
                print(f.id, f.loc(line), sorted(ssl.binops), sorted(ssl.names)[:5])
print(n, flagged)
