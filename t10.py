import sys,os,time,glob,re
sys.path.insert(0,'/verif')
from rules import core, cgrules
d=sorted(glob.glob('/verif/build/facts/*/cli'))[-1]
P=core.Program('cli',d)
G=cgrules.Guards(P)
f=P.fns['bin::yq_runner::reconcile_presentation_at_depth']
for c in f.calls:
    ids=P._resolve_id(c)
    if ids and (ids[0] in G.kind or ids[0]==f.id):
        print(c.bb, c.name, ids, c.line)
dom=f.dominators(True)
for c in f.calls:
    if P._resolve_id(c)==[f.id]:
        print('rec at',c.bb, sorted(dom.get(c.bb,[]))[:10], cgrules.edge_guard(P,G,f,c))
for c in f.calls[:6]: print(c.bb,c.name,c.callee,c.resolved,P._resolve_id(c))
print(f.blocks[0]['t'])
