import sys,os,time,glob,re
sys.path.insert(0,'/verif')
from rules import core, cgrules
d=sorted(glob.glob('/verif/build/facts/*/cli'))[-1]
P=core.Program('cli',d)
AST=re.compile(r'jq::expr::|jq::parser::Token|FuncDef')
YAML=re.compile(r'yaml::light::Yaml(Cursor|Value|Field|Fields|Elements)|yaml::index::YamlIndex')
def klass(f):
    g=f
    if f.kind=='closure' and f.root in P.fns: g=P.fns[f.root]
    tys=g.locals[1:g.nargs+1]
    if f.kind=='closure': tys=tys+f.locals[1:f.nargs+1]
    s=' '.join(tys)
    if AST.search(s): return 'ast'
    if YAML.search(s): return 'yaml'
    return 'data'
roots=[f.id for f in P.fns.values() if (f.pub and f.crate=='lib') or f.id=='bin::main']
reach=P.reachable(roots)
G=cgrules.Guards(P)
edges=[]
nodes=set()
for comp in P.sccs(reach):
    for f,c,callee in cgrules.scc_edges(P,comp):
        if klass(f)!='data' or klass(P.fns[callee])!='data': continue
        if cgrules.edge_guard(P,G,f,c) is None:
            edges.append((f.id,callee)); nodes.add(f.id); nodes.add(callee)
print(len(edges),len(nodes))
# all cycles: SCCs of the unguarded data graph
from collections import defaultdict
adj=defaultdict(set)
for a,b in edges: adj[a].add(b)
class Q: pass
q=Q(); q.fns={n:None for n in nodes}; 
# reuse Program.sccs by monkeypatch
P2=core.Program.__new__(core.Program); P2.fns={n:P.fns[n] for n in nodes}; P2._cg=adj
for comp in core.Program.sccs(P2,nodes):
    print(len(comp), comp[:8])
