import sys,os,time,glob,re
sys.path.insert(0,'/verif')
from rules import core
d=sorted(glob.glob('/verif/build/facts/*/cli'))[-1]
P=core.Program('cli',d)
pat=sys.argv[1]
for f in sorted(P.fns.values(), key=lambda f:f.id):
    if re.search(pat,f.id) and f.kind!='closure' and (f.pub or len(sys.argv)>2):
        print(f.id, f.loc())
