import sys,time
sys.path.insert(0,'/verif')
from rules import core, jqeval
from rules import facts as F
d,_=F.ensure_facts(['cli'])
P=core.Program('cli',d['cli'])
if len(sys.argv)>1:
    jqeval.PROGRAMS=jqeval.PROGRAMS[:int(sys.argv[1])]
t=time.time()
for r in jqeval.rule_evaluators({'cli':P},'quick',floor_share=0.0):
    for v in r.violations: print(v.key,'|',v.msg[:500]); print()
    for n in r.notes: print('NOTE',n)
    for i in r.instances[-1:]: print(i)
print(time.time()-t)
