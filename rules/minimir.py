"""E3 `bytedom` engine: an evaluator for *pure finite-domain fragments* of the crate's MIR.

It is used only to tabulate small pure functions of the crate (byte classifiers, per-byte
state-machine cascades, SIMD lane predicates, bit-field pack/unpack helpers) over their
complete finite input domain (e.g. 256 byte values x 4 scanner states), so that sibling
implementations and the specification table can be compared cell by cell.  It is not a
harness for running the library on sampled inputs: a fragment that reads memory the rule did
not provide, loops without bound, or calls an unmodelled function raises `Unsupported`
and the rule instance fails closed.
"""
import copy
import re

MASKS = {}
INT_TYPES = {
    "u8": (8, False), "u16": (16, False), "u32": (32, False), "u64": (64, False), "u128": (128, False), "usize": (64, False),
    "i8": (8, True), "i16": (16, True), "i32": (32, True), "i64": (64, True), "i128": (128, True), "isize": (64, True),
}


class Unsupported(Exception):
    pass


class Panic(Exception):
    """The fragment reached a panic (assert failure, unreachable, explicit panic)."""


def wrap(v, ty):
    if ty in INT_TYPES:
        bits, signed = INT_TYPES[ty]
        v &= (1 << bits) - 1
        if signed and v >> (bits - 1):
            v -= 1 << bits
        return v
    if ty == "bool":
        return 1 if v else 0
    if ty == "char":
        return v & 0xFFFFFFFF
    return v


def unsigned(v, bits):
    return v & ((1 << bits) - 1)


class Ref:
    __slots__ = ("frame", "local", "path", "mut")

    def __init__(self, frame, local, path, mut=False):
        self.frame = frame
        self.local = local
        self.path = tuple(path)
        self.mut = mut

    def __repr__(self):
        return "Ref(_%d%s)" % (self.local, "".join(".%s" % (p,) for p in self.path))

    def __deepcopy__(self, memo):
        return self  # a borrow / pointer: copying the holder keeps the referent



class Slice:
    """&[T] / &mut [T] / &str view onto a heap list (esz = element size in bytes)."""
    __slots__ = ("heap", "start", "len", "esz")

    def __init__(self, heap, start, length, esz=1):
        self.heap = heap
        self.start = start
        self.len = length
        self.esz = esz

    def __repr__(self):
        return "Slice(%r)" % (self.heap[self.start:self.start + self.len],)

    def __deepcopy__(self, memo):
        return self  # a borrow / pointer: copying the holder keeps the referent



class Ptr:
    """Raw pointer: byte offset `off` into a heap list whose elements are `helem` bytes wide;
    `esz` is the pointee size (stride of add/offset)."""
    __slots__ = ("heap", "off", "esz", "helem")

    def __init__(self, heap, off, esz=1, helem=1):
        self.heap = heap
        self.off = off
        self.esz = esz
        self.helem = helem

    def nbytes(self):
        return len(self.heap) * self.helem

    def load(self, n):
        if self.off < 0 or self.off + n > self.nbytes():
            raise Panic("out-of-bounds %d-byte read at byte offset %d of a %d-byte buffer" % (n, self.off, self.nbytes()))
        if self.helem == 1:
            return [x & 0xFF for x in self.heap[self.off:self.off + n]]
        out = []
        for i in range(self.off, self.off + n):
            e = self.heap[i // self.helem] & ((1 << (8 * self.helem)) - 1)
            out.append((e >> (8 * (i % self.helem))) & 0xFF)
        return out

    def store(self, data):
        n = len(data)
        if self.off < 0 or self.off + n > self.nbytes():
            raise Panic("out-of-bounds %d-byte write at byte offset %d of a %d-byte buffer" % (n, self.off, self.nbytes()))
        for j, b in enumerate(data):
            i = self.off + j
            if self.helem == 1:
                self.heap[i] = b & 0xFF
            else:
                k = i // self.helem
                sh = 8 * (i % self.helem)
                e = self.heap[k] & ((1 << (8 * self.helem)) - 1)
                e = (e & ~(0xFF << sh)) | ((b & 0xFF) << sh)
                self.heap[k] = e


TYPE_SIZES = {"u8": 1, "i8": 1, "bool": 1, "u16": 2, "i16": 2, "u32": 4, "i32": 4, "u64": 8, "i64": 8, "usize": 8, "isize": 8,
              "u128": 16, "i128": 16, "__m128i": 16, "__m256i": 32, "__m512i": 64}


def pointee_size(ty):
    t = ty.strip()
    t = re.sub(r"^\*(const|mut) ", "", t)
    t = t.rsplit("::", 1)[-1]
    return TYPE_SIZES.get(t)

    def __deepcopy__(self, memo):
        return self  # a borrow / pointer: copying the holder keeps the referent



class Vec:
    """SIMD register: tuple of unsigned byte lanes."""
    __slots__ = ("b",)

    def __init__(self, b):
        self.b = tuple(x & 0xFF for x in b)

    def __eq__(self, o):
        return isinstance(o, Vec) and self.b == o.b

    def __hash__(self):
        return hash(self.b)

    def __repr__(self):
        return "Vec(%s)" % bytes(self.b).hex()


class UninitBox:
    """`Box<MaybeUninit<T>>` from `Box::new_uninit()` (the `vec![..]` expansion) and the raw pointer
    read out of it: every field projection is a transparent wrapper; a write through it fills the cell."""
    __slots__ = ("cell", "init", "rc")

    def __init__(self, v=None, init=False):
        self.cell = [v]
        self.init = init  # initialised Box<T>: a deref enters the content
        self.rc = 1  # Rc / Arc handles cloned from this one (never decremented: drops are not tracked)

    def __repr__(self):
        return "%s(%r)" % ("Box" if self.init else "UninitBox", self.cell[0])

    def __deepcopy__(self, memo):
        return self  # a borrow / pointer: copying the holder keeps the referent



class Adt:
    __slots__ = ("path", "vi", "vname", "fields", "gen")

    def __init__(self, path, vi, vname, fields):
        self.path = path
        self.vi = vi
        self.vname = vname
        self.fields = fields
        self.gen = None  # closures: generic bindings of the frame that created them

    def __repr__(self):
        if not self.fields:
            return "%s::%s" % (self.path.rsplit("::", 1)[-1], self.vname)
        return "%s::%s%r" % (self.path.rsplit("::", 1)[-1], self.vname, self.fields)

    def key(self):
        p = self.path
        for pre in ("std::", "core::", "alloc::"):
            if p.startswith(pre):
                p = p[len(pre):]
        return (p, self.vi, tuple(freeze(x) for x in self.fields))


class Opaque:
    """An object the fragment only passes to effect functions (e.g. a BitWriter)."""
    __slots__ = ("name",)

    def __init__(self, name):
        self.name = name

    def __repr__(self):
        return "<%s>" % self.name


class RangeIter:
    __slots__ = ("cur", "end")

    def __init__(self, cur, end):
        self.cur = cur
        self.end = end


class SliceIter:
    __slots__ = ("s", "i")

    def __init__(self, s):
        self.s = s
        self.i = 0


def freeze(v):
    if isinstance(v, list):
        return tuple(freeze(x) for x in v)
    if isinstance(v, Adt):
        return v.key()
    if isinstance(v, Vec):
        return ("vec", v.b)
    if isinstance(v, Slice):
        return ("slice", tuple(v.heap[v.start:v.start + v.len]))
    if isinstance(v, Opaque):
        return ("opaque", v.name)
    if type(v).__name__ == "StrBuf":
        return ("slice", tuple(v.b))
    if isinstance(v, Ref):
        # compare references by referent (shared borrows of plain data)
        try:
            t = v.frame.locals[v.local]
            for p in v.path:
                if p == "*":
                    continue
                if p[0] == "f":
                    t = t.fields[p[1]] if isinstance(t, Adt) else t[p[1]]
                elif p[0] == "i":
                    t = t.heap[t.start + p[1]] if isinstance(t, Slice) else t[p[1]]
            return freeze(t) if not isinstance(t, Ref) else ("ref",)
        except Exception:
            return ("ref",)
    return v


UNIT = []


class Frame:
    __slots__ = ("fn", "locals", "id", "gen")
    _n = 0

    def __init__(self, fn):
        self.fn = fn
        self.locals = [None] * len(fn.locals)
        Frame._n += 1
        self.id = Frame._n
        self.gen = {}

    def __deepcopy__(self, memo):
        return self  # a borrow / pointer: copying the holder keeps the referent



class _PromotedFn:
    """Body of a promoted constant (dumped for generic owners), runnable like a function."""

    def __init__(self, owner, idx, raw):
        self.id = "%s::{promoted#%d}" % (owner.id, idx)
        self.raw = {}
        self.blocks = raw["blocks"]
        self.locals = raw["locals"]
        self.nargs = 0
        self.names = {}
        self.file = owner.file
        self.line = owner.line
        self.prog = owner.prog
        self.crate = owner.crate


class Interp:
    def __init__(self, prog, effect_fns=(), max_steps=200000, max_depth=40):
        self.P = prog
        self.effect_fns = effect_fns if isinstance(effect_fns, dict) else {e: None for e in effect_fns}
        self.effects = []
        self.max_steps = max_steps
        self.max_depth = max_depth
        self.steps = 0
        self.statics = {}
        self.overrides = {}  # fn id -> callable(args) (e.g. cached CPU detectors)

    # ------------------------------------------------------------------ entry
    def call(self, fid, args, gen=None):
        f = self.P.fns.get(fid)
        if f is None:
            fs = self.P.find(fid)
            if len(fs) != 1:
                raise Unsupported("function %s not found (%d matches)" % (fid, len(fs)))
            f = fs[0]
        self.steps = 0
        return self.run(f, list(args), 0, gen)

    def reset(self):
        self.effects = []

    # ------------------------------------------------------------------ places
    def resolve(self, fr, pl):
        """Normalise a place to (frame, local, path) with derefs followed."""
        local, proj = pl
        frame = fr
        path = []
        cur_special = None  # Slice / Ptr values act as their own referent
        for e in proj:
            if e == "*":
                v = self.read_path(frame, local, path)
                if isinstance(v, Ref):
                    frame, local, path = v.frame, v.local, list(v.path)
                elif isinstance(v, (Slice, Ptr, Opaque, Vec, UninitBox)) or v is None:
                    path.append("*")
                elif isinstance(v, Adt) and v.path.endswith("Box"):
                    path.append(("f", 0))
                else:
                    # references to temporaries may be stored by value (promoted consts)
                    path.append("*")
            elif e[0] == "f":
                path.append(("f", e[1]))
            elif e[0] == "i":
                idx = fr.locals[e[1]]
                path.append(("i", idx))
            elif e[0] == "c":
                if e[2]:
                    # constant index counted from the end (slice patterns `[.., last]`)
                    cur_ = self.read_path(frame, local, path)
                    n_ = cur_.len if isinstance(cur_, Slice) else len(cur_) if isinstance(cur_, list) else None
                    if n_ is None:
                        raise Unsupported("constant index from end into %r" % (cur_,))
                    path.append(("i", n_ - e[1]))
                else:
                    path.append(("i", e[1]))
            elif e[0] == "s":
                # subslice `[from .. to]` (to counted from the end when e[3]) of a slice pattern
                path.append(("s", e[1], e[2], bool(e[3])))
            elif e[0] == "d":
                path.append(("d", e[2]))
            else:
                raise Unsupported("projection %r" % (e,))
        return frame, local, path

    def read_path(self, frame, local, path):
        v = frame.locals[local]
        for p in path:
            if isinstance(v, UninitBox):
                if v.init and p == "*":
                    v = v.cell[0]
                continue
            if p == "*":
                if isinstance(v, (Slice, Ptr, Opaque, Vec)):
                    continue
                if isinstance(v, Ref):
                    v = self.read_path(v.frame, v.local, v.path)
                    continue
                continue
            k = p[0]
            if k == "f":
                if isinstance(v, Adt):
                    v = v.fields[p[1]]
                elif isinstance(v, list):
                    v = v[p[1]]
                elif isinstance(v, Vec) and p[1] == 0:
                    v = v
                elif isinstance(v, RangeIter):
                    v = v.cur if p[1] == 0 else v.end
                elif isinstance(v, int) and p[1] == 0:
                    v = v  # scalar constant of a single-field newtype (e.g. `Phi(u8)`)
                elif type(v).__name__ == "StrBuf" and p[1] == 0:
                    v = v  # Box<str> modelled by its string: the box's pointer fields are transparent
                else:
                    raise Unsupported("field %r of %r" % (p, v))
            elif k == "i":
                if isinstance(v, Slice):
                    if not (0 <= p[1] < v.len):
                        raise Panic("slice index %d out of bounds (len %d)" % (p[1], v.len))
                    v = v.heap[v.start + p[1]]
                elif isinstance(v, list):
                    if not (0 <= p[1] < len(v)):
                        raise Panic("array index %d out of bounds (len %d)" % (p[1], len(v)))
                    v = v[p[1]]
                else:
                    raise Unsupported("index into %r" % (v,))
            elif k == "d":
                if isinstance(v, Adt) and v.vi != p[1]:
                    raise Unsupported("downcast to variant %d of %r" % (p[1], v))
            elif k == "s":
                if isinstance(v, list):
                    v = Slice(v, 0, len(v))
                if not isinstance(v, Slice):
                    raise Unsupported("subslice of %r" % (v,))
                frm, to, from_end = p[1], p[2], p[3]
                end_ = v.len - to if from_end else to
                if not (0 <= frm <= end_ <= v.len):
                    raise Panic("subslice pattern out of range")
                v = Slice(v.heap, v.start + frm, end_ - frm, v.esz)
        return v

    def read(self, fr, pl):
        frame, local, path = self.resolve(fr, pl)
        return self.read_path(frame, local, path)

    def write(self, fr, pl, val):
        frame, local, path = self.resolve(fr, pl)
        self.write_resolved(frame, local, path, val)

    def write_ref(self, r, val):
        """Store through a reference value."""
        self.write_resolved(r.frame, r.local, list(r.path), val)

    def write_resolved(self, frame, local, path, val):
        if path and path[-1] == "*":
            tgt = self.read_path(frame, local, path[:-1])
            if isinstance(tgt, UninitBox) and tgt.init:
                tgt.cell[0] = val
                return
        while path and path[-1] == "*":
            # writing through a Slice/opaque deref is not meaningful
            path = path[:-1]
        path = [p for p in path if not (isinstance(p, tuple) and p[0] == "d")]
        if not path:
            frame.locals[local] = val
            return
        v = frame.locals[local]
        for p in path[:-1]:
            if isinstance(v, UninitBox):
                if v.init:
                    if p == "*":
                        v = v.cell[0]
                    continue
                break
            if p == "*":
                if isinstance(v, Ref):
                    v = self.read_path(v.frame, v.local, v.path)
                continue
            v = self._child(v, p)
        if isinstance(v, UninitBox) and not v.init:
            v.cell[0] = val
            return
        p = path[-1]
        if p == "*":
            raise Unsupported("write through opaque deref")
        if p[0] == "f":
            if isinstance(v, Adt):
                v.fields[p[1]] = val
            elif isinstance(v, list):
                v[p[1]] = val
            elif isinstance(v, RangeIter):
                if p[1] == 0:
                    v.cur = val
                else:
                    v.end = val
            else:
                raise Unsupported("field write into %r" % (v,))
        elif p[0] == "i":
            if isinstance(v, Slice):
                if not (0 <= p[1] < v.len):
                    raise Panic("slice index out of bounds on write")
                v.heap[v.start + p[1]] = val
            elif isinstance(v, list):
                v[p[1]] = val
            else:
                raise Unsupported("index write into %r" % (v,))

    def _child(self, v, p):
        if p[0] == "f":
            if isinstance(v, Adt):
                return v.fields[p[1]]
            return v[p[1]]
        if p[0] == "i":
            if isinstance(v, Slice):
                return v.heap[v.start + p[1]]
            return v[p[1]]
        return v

    # ------------------------------------------------------------------ operands
    def const(self, k, fr=None):
        ty = k.get("ty", "")
        if "param" in k and "v" not in k:
            if fr is not None and k["param"] in fr.gen:
                return fr.gen[k["param"]]
            raise Unsupported("unbound const generic parameter %s" % k["param"])
        if "v" in k:
            if "sv" in k:
                return k["sv"]
            if ty in ("f64", "f32"):
                import struct as _st

                return _st.unpack("<d", k["v"].to_bytes(8, "little"))[0] if ty == "f64" else _st.unpack("<f", k["v"].to_bytes(4, "little"))[0]
            return k["v"]
        if "ref" in k:
            inner = dict(k["ref"])
            inner.setdefault("ty", re.sub(r"^&(?:'\w+ )?(?:mut )?", "", ty))
            v = self.const(inner, fr)
            hf = Frame.__new__(Frame)
            hf.fn = None
            hf.locals = [v]
            hf.id = -1
            hf.gen = {}
            return Ref(hf, 0, [])
        if "list" in k:
            # tuple / array constant, element-wise
            return [self.const(dict(fk), fr) for fk in k["list"]]
        if "adt2" in k:
            a = k["adt2"]
            path = self.P.norm(a["path"], False)
            vals = [self.const(fk, fr) for fk in a["fields"]]
            return Adt(path, a["vi"], a["vname"], vals)
        if "adt" in k:
            a = k["adt"]
            vals = [f.get("sv", f["v"]) for f in a["fields"]]
            path = self.P.norm(a["path"], False)
            if path.endswith("ops::RangeInclusive") or path.endswith("range::RangeInclusive"):
                from .stdmodel import RangeIncl

                byname = {f["name"]: f.get("sv", f["v"]) for f in a["fields"]}
                v = RangeIncl(byname["start"], byname["end"])
            elif path.endswith("ops::Range"):
                byname = {f["name"]: f.get("sv", f["v"]) for f in a["fields"]}
                v = RangeIter(byname["start"], byname["end"])
            else:
                v = Adt(path, 0, path.rsplit("::", 1)[-1], vals)
            if ty.startswith("&"):
                hf = Frame.__new__(Frame)
                hf.fn = None
                hf.locals = [v]
                hf.id = -1
                return Ref(hf, 0, [])
            return v
        if "zst" in k:
            if "fn" in k:
                return ("fnitem", self._bind_fnitem(k, fr))
            return []
        if "fn" in k:
            return ("fnitem", self._bind_fnitem(k, fr))
        if "str" in k:
            b = list(k["str"].encode())
            return Slice(b, 0, len(b))
        if "bytes" in k:
            raw = bytes.fromhex(k["bytes"])
            esz = k.get("esz", 1)
            m = re.match(r"^&?\[(\[?)([a-z0-9]+)", ty.replace("&'static ", "&"))
            ety = None
            mm = re.findall(r"(u8|i8|u16|i16|u32|i32|u64|i64|usize|isize|u128|i128|bool)", ty)
            ety = mm[0] if mm else "u8"
            vals = [wrap(int.from_bytes(raw[i:i + esz], "little"), ety) for i in range(0, len(raw), esz)]
            # nested arrays: [[T; n]; m]
            dims = [int(x) for x in re.findall(r";\s*(\d+)\]", ty)]
            if len(dims) == 2:
                inner = dims[0]
                vals = [vals[i:i + inner] for i in range(0, len(vals), inner)]
            if ty.startswith("&"):
                return Slice(vals, 0, len(vals))
            return vals
        if "refarr" in k:
            # reference to an array of references
            items = [self.const(dict(x), fr) for x in k["refarr"]]
            return Slice(items, 0, len(items), 8)
        if "ptr_bytes" in k:
            if re.match(r"^&(?:'\w+ )?\[&", ty):
                raise Unsupported("constant array of references without element values: %s" % ty)
            raw = list(bytes.fromhex(k["ptr_bytes"]))
            # reference to a constant allocation; interpret according to the pointee type
            mm = re.match(r"^&(?:'static )?\[(u8|i8|u16|i16|u32|i32|u64|i64); (\d+)\]", ty)
            if mm:
                ety, n = mm.group(1), int(mm.group(2))
                esz = INT_TYPES[ety][0] // 8
                vals = [wrap(int.from_bytes(bytes(raw[i:i + esz]), "little"), ety) for i in range(0, n * esz, esz)]
                return Slice(vals, 0, len(vals))
            mm = re.match(r"^&(?:'static )?(u8|i8|u16|i16|u32|i32|u64|i64|usize|bool)$", ty)
            if mm:
                ety = mm.group(1)
                esz = 1 if ety == "bool" else INT_TYPES[ety][0] // 8
                return wrap(int.from_bytes(bytes(raw[:esz]), "little"), ety)
            pt = re.sub(r"^&(?:'\w+ )?(?:mut )?", "", ty)
            a = self.P.adts.get(self.P.norm(pt, False))
            if a is not None and a["kind"] == "Enum" and all(not v["fields"] for v in a["variants"]) and raw:
                vi = raw[0]
                if vi < len(a["variants"]):
                    hf = Frame.__new__(Frame)
                    hf.fn = None
                    hf.locals = [Adt(self.P.norm(pt, False), vi, a["variants"][vi]["name"], [])]
                    hf.id = -1
                    return Ref(hf, 0, [])
            if re.match(r"^&(?:'\w+ )?\[.*; 0\]$", ty):
                return Slice([], 0, 0)
            # anything else (tuples, arrays of structs, pointers to pointers) would be raw bytes with the
            # provenance stripped: never hand that to the program as a value
            raise Unsupported("constant allocation of type %s is not decoded" % ty)
        if "static" in k:
            return self.static_ref(k["static"], ty)
        if "item" in k and "pidx" not in k and ("indirect" in k or "slice" in k):
            c = self.P.consts.get(self.P.norm(k["item"], False))
            if c is not None and ("bytes" in c or "str" in c or "v" in c):
                kk = {x: c[x] for x in c if x in ("v", "sv", "bytes", "esz", "str")}
                kk["ty"] = ty
                if "bytes" in kk and ty.startswith("&") and not c.get("ty", "").startswith("&"):
                    pass
                return self.const(kk, fr)
        if "item" in k and "pidx" not in k and fr is not None and fr.gen:
            # associated constant of a trait, reached through a generic parameter: `S::NAME`
            item = self.P.norm(k["item"], False)
            if "::" in item:
                trait, cname = item.rsplit("::", 1)
                for gv in fr.gen.values():
                    tyname = gv[1] if isinstance(gv, tuple) else gv
                    if not isinstance(tyname, str):
                        continue
                    c = self.P.consts.get("<%s as %s>::%s" % (tyname, trait, cname))
                    if c is None and "<" not in tyname:
                        # the bin crate names a lib type by its re-exported path (`succinctly::jq::YqSemantics`
                        # for `jq::eval::YqSemantics`): the implementor is the one type with that last segment
                        last = tyname.rsplit("::", 1)[-1]
                        suffix = " as %s>::%s" % (trait, cname)
                        cands = [kk_ for kk_ in self.P.consts if kk_.endswith(suffix) and kk_[1:-len(suffix)].rsplit("::", 1)[-1] == last]
                        if len(cands) == 1:
                            c = self.P.consts[cands[0]]
                    if c is not None and ("v" in c or "adt2" in c or "adt" in c):
                        kk = dict(c)
                        kk.setdefault("ty", ty)
                        return self.const({x: kk[x] for x in kk if x in ("ty", "v", "sv", "adt", "adt2", "bytes", "esz", "str")}, fr)
                    if cname == "TAG" and trait.endswith("EvalSemantics") and tyname.endswith("Semantics"):
                        # `const TAG: EvalTag = EvalTag::Jq / ::Yq` (enum-typed associated constants are not in the facts)
                        a = self.P.adts.get("jq::eval::EvalTag")
                        want = tyname.rsplit("::", 1)[-1].replace("Semantics", "")
                        if a is not None:
                            for vi, var in enumerate(a["variants"]):
                                if var["name"] == want:
                                    return Adt("jq::eval::EvalTag", vi, want, [])
        if "pidx" in k and "item" in k:
            # promoted constant of a generic function: evaluate its dumped body
            owner = self.P.fns.get(self.P.norm(k["item"], False)) or (fr.fn if fr is not None and fr.fn is not None else None)
            if fr is not None and fr.fn is not None and "promoteds" in fr.fn.raw:
                owner = fr.fn
            pr = (owner.raw.get("promoteds") or {}).get(str(k["pidx"])) if owner is not None else None
            if pr is not None:
                key = (owner.id, k["pidx"])
                cache = self.__dict__.setdefault("_promoted_cache", {})
                if key not in cache:
                    pf = _PromotedFn(owner, k["pidx"], pr)
                    cache[key] = self.run(pf, [], 0, fr.gen if fr is not None else None)
                return cache[key]
        raise Unsupported("constant %r (in %s, generic bindings %r)" % (k, fr.fn.id if fr is not None and fr.fn is not None else None, fr.gen if fr is not None else None))

    def _bind_fnitem(self, k, fr):
        """A function item named in a generic frame (`fold(.., arith_add::<S>)`) is called later with no
        frame at hand: bind its generic arguments to the creating frame's now."""
        g = k.get("g")
        if not g or fr is None or not fr.gen:
            return k
        out = []
        changed = False
        for v in g:
            b = fr.gen.get(v.strip())
            if isinstance(b, tuple) and b[0] == "ty":
                out.append(b[1])
                changed = True
            elif isinstance(b, str):
                out.append(b)
                changed = True
            elif isinstance(b, int) and not isinstance(b, bool):
                out.append(str(b))
                changed = True
            else:
                out.append(v)
        if not changed:
            return k
        k2 = dict(k)
        k2["g"] = out
        return k2

    def static_ref(self, path, ty=None):
        path = self.P.norm(path, False)
        if path not in self.statics:
            c = self.P.consts.get(path)
            if c is not None and "adt2" in c:
                hf = Frame.__new__(Frame)
                hf.fn = None
                hf.locals = [self.const({"adt2": c["adt2"], "ty": c.get("ty", "")}, None)]
                hf.id = -1
                self.statics[path] = hf
                return Ref(hf, 0, [])
            if (c is None or "bytes" not in c) and ty is not None and not re.search(r"atomic::|OnceLock|OnceCell|Cell<|Mutex|RwLock", ty):
                raise Unsupported("static %s of type %s has no decoded initial value" % (path, ty))
            if c is None or "bytes" not in c:
                # statics of non-array type (atomics used as detection caches): a zero-initialised cell
                hf = Frame.__new__(Frame)
                hf.fn = None
                hf.locals = [0]
                hf.id = -1
                self.statics[path] = hf
                return Ref(hf, 0, [])
            raw = bytes.fromhex(c["bytes"])
            esz = c.get("esz", 1)
            mm = re.findall(r"(u8|i8|u16|i16|u32|i32|u64|i64|usize|isize|u128|i128|bool)", c["ty"])
            ety = mm[0] if mm else "u8"
            vals = [wrap(int.from_bytes(raw[i:i + esz], "little"), ety) for i in range(0, len(raw), esz)]
            if not c["ty"].startswith("["):
                vals = vals[0]
            hf = Frame.__new__(Frame)
            hf.fn = None
            hf.locals = [vals]
            hf.id = -1
            self.statics[path] = hf
        return Ref(self.statics[path], 0, [])

    def operand(self, fr, op):
        if op[0] in ("c", "m"):
            v = self.read(fr, op[1])
            if isinstance(v, (list, Adt)) and op[0] == "c":
                return copy.deepcopy(v)
            return v
        if op[0] == "k":
            return self.const(op[1], fr)
        raise Unsupported("operand %r" % (op,))

    def type_of_place(self, fr, pl):
        f = fr.fn
        ty = f.locals[pl[0]]
        for e in pl[1]:
            if e == "*":
                ty = re.sub(r"^&(?:'\w+ )?(?:mut )?", "", ty)
                ty = re.sub(r"^\*(?:const|mut) ", "", ty)
            elif e[0] == "f":
                ty = self.field_type(ty, e[1])
            elif e[0] in ("i", "c"):
                m = re.match(r"^\[(.*); \d+\]$", ty) or re.match(r"^\[(.*)\]$", ty)
                ty = m.group(1) if m else "?"
            elif e[0] == "d":
                ty = ty + "#" + str(e[2])
            else:
                ty = "?"
        return ty

    def field_type(self, ty, idx):
        vi = 0
        if "#" in ty:
            ty, v = ty.rsplit("#", 1)
            vi = int(v)
        if ty.startswith("("):
            parts = split_top(ty[1:-1])
            return parts[idx].strip() if idx < len(parts) else "?"
        base = ty.split("<", 1)[0]
        a = self.P.adts.get(base)
        if a is None:
            a = self.P.adts.get(self.P.norm(base, False)) or self.P.adts.get("bin::" + base)
        if a is None:
            return "?"
        try:
            return a["variants"][vi]["fields"][idx]["ty"]
        except Exception:
            return "?"

    # ------------------------------------------------------------------ execution
    def run(self, f, args, depth, gen=None):
        if depth > self.max_depth:
            raise Unsupported("call depth exceeded in %s" % f.id)
        fr = Frame(f)
        if gen:
            fr.gen = gen
        if len(args) != f.nargs:
            raise Unsupported("arity mismatch calling %s: %d args for %d params" % (f.id, len(args), f.nargs))
        for i, a in enumerate(args):
            fr.locals[i + 1] = a
        bb = 0
        blocks = f.blocks
        while True:
            b = blocks[bb]
            for s in b["s"]:
                self.steps += 1
                if self.steps > self.max_steps:
                    raise Unsupported("step budget exceeded in %s" % f.id)
                if s[0] == "a":
                    v = self.rvalue(fr, s[2], s[1])
                    self.write(fr, s[1], v)
                elif s[0] == "sd":
                    raise Unsupported("SetDiscriminant")
                elif s[0] == "intr":
                    if "assume" in s[1]:
                        continue
                    raise Unsupported("intrinsic statement %s" % s[1])
            t = b["t"]
            k = t[0]
            self.steps += 1
            if k == "goto":
                bb = t[1]
            elif k == "switch":
                v = self.operand(fr, t[1])
                if isinstance(v, bool):
                    v = int(v)
                if not isinstance(v, int):
                    raise Unsupported("switch on %r" % (v,))
                # switch values are unsigned bit patterns
                ty = t[4]
                if ty in INT_TYPES and INT_TYPES[ty][1] and v < 0:
                    v = unsigned(v, INT_TYPES[ty][0])
                tgt = t[3]
                for val, tg in t[2]:
                    if val == v:
                        tgt = tg
                        break
                bb = tgt
            elif k == "ret":
                return fr.locals[0] if fr.locals[0] is not None else []
            elif k == "call":
                bb = self.do_call(fr, t, depth)
                if bb is None:
                    raise Panic("diverging call in %s" % f.id)
            elif k == "drop":
                bb = t[2]
            elif k == "assert":
                v = self.operand(fr, t[1])
                if bool(v) != bool(t[2]):
                    raise Panic("assert %s failed in %s" % (t[3], f.id))
                bb = t[4]
            elif k == "unreach":
                raise Panic("unreachable reached in %s" % f.id)
            else:
                raise Unsupported("terminator %r" % (t[0],))

    def rvalue(self, fr, rv, dest):
        k = rv[0]
        if k == "use":
            return self.operand(fr, rv[1])
        if k == "ref" or k == "ptr":
            pl = rv[2]
            frame, local, path = self.resolve(fr, pl)
            # reborrow of a slice / opaque: the value itself is the reference
            v = self.read_path(frame, local, path)
            if path and path[-1] == "*" and isinstance(v, (Slice, Opaque, Ptr)):
                return v
            if isinstance(v, (Slice, Opaque)) and not path:
                # &local where local holds an unsized view: keep identity
                pass
            return Ref(frame, local, path, rv[1] == "mut")
        if k == "bin":
            a = self.operand(fr, rv[2])
            b = self.operand(fr, rv[3])
            return self.binop(fr, rv[1], a, b, rv, dest)
        if k == "un":
            a = self.operand(fr, rv[2])
            dty = self.type_of_place(fr, dest)
            if rv[1] == "Not":
                if dty == "bool":
                    return 0 if a else 1
                if dty in INT_TYPES:
                    return wrap(~a, dty)
                raise Unsupported("Not on %s" % dty)
            if rv[1] == "Neg":
                if isinstance(a, float) or dty in ("f64", "f32"):
                    return -float(a)
                return wrap(-a, dty)
            if rv[1] == "PtrMetadata":
                if isinstance(a, Slice):
                    return a.len
                if isinstance(a, Ref):
                    v = self.read_path(a.frame, a.local, a.path)
                    if isinstance(v, Slice):
                        return v.len
                    if isinstance(v, list):
                        return len(v)
                raise Unsupported("PtrMetadata of %r" % (a,))
        if k == "cast":
            v = self.operand(fr, rv[2])
            kind, ty = rv[1], rv[3]
            if kind in ("IntToInt",):
                if isinstance(v, Adt):  # enum to int
                    v = v.vi - 1 if v.path.endswith("cmp::Ordering") else v.vi
                return wrap(v, ty)
            if kind == "IntToFloat":
                fv = float(v)
                if ty == "f32":
                    import struct as _st

                    fv = _st.unpack("<f", _st.pack("<f", fv))[0]
                return fv
            if kind == "FloatToInt":
                if ty not in INT_TYPES:
                    raise Unsupported("cast FloatToInt to %s" % ty)
                bits, signed = INT_TYPES[ty]
                lo, hi = (-(1 << (bits - 1)), (1 << (bits - 1)) - 1) if signed else (0, (1 << bits) - 1)
                if v != v:
                    return 0
                if v == float("inf"):
                    return hi
                if v == float("-inf"):
                    return lo
                return max(lo, min(hi, int(v)))  # saturating, as `as` casts are
            if kind == "FloatToFloat":
                if ty == "f32":
                    import struct as _st

                    return _st.unpack("<f", _st.pack("<f", float(v)))[0]
                return float(v)
            if kind == "Transmute":
                return self.transmute(v, ty)
            if kind in ("PtrToPtr", "MutToConstPointer") or kind.startswith("PointerCoercion"):
                if kind.startswith("PointerCoercion(Unsize") or "Unsize" in kind:
                    # &[T; N] -> &[T]
                    if isinstance(v, Ref):
                        arr = self.read_path(v.frame, v.local, v.path)
                        if isinstance(arr, list):
                            return Slice(arr, 0, len(arr))
                    if isinstance(v, Slice):
                        return v
                    if isinstance(v, (Ref, UninitBox)):
                        return v  # &T -> &dyn Trait, Box<T> -> Box<dyn Trait>: the value is its own trait object
                    raise Unsupported("unsize of %r" % (v,))
                if isinstance(v, Ptr):
                    ps = pointee_size(ty)
                    return Ptr(v.heap, v.off, ps or v.esz, v.helem)
                if isinstance(v, Slice):
                    return Ptr(v.heap, v.start * v.esz, pointee_size(ty) or v.esz, v.esz)
                if isinstance(v, Ref):
                    t = self.read_path(v.frame, v.local, v.path)
                    if isinstance(t, list):
                        return Ptr(t, 0, pointee_size(ty) or 1, 1)
                return v
            raise Unsupported("cast %s to %s" % (kind, ty))
        if k == "agg":
            kind = rv[1]
            ops = [self.operand(fr, o) for o in rv[2]]
            if kind["k"] == "tuple":
                return ops
            if kind["k"] == "array":
                return ops
            if kind["k"] == "adt":
                p = kind["path"]
                if p.endswith("ops::Range") or p.endswith("::Range"):
                    return RangeIter(ops[0], ops[1])
                return Adt(self.P.norm(p, False), kind["vi"], kind["variant"], ops)
            if kind["k"] == "closure":
                ca = Adt("closure:" + self.P.norm(kind["path"], False), 0, "closure", ops)
                ca.gen = fr.gen or None
                return ca
            raise Unsupported("aggregate %r" % (kind,))
        if k == "disc":
            v = self.read(fr, rv[1])
            if isinstance(v, Adt):
                if v.path.endswith("cmp::Ordering"):
                    # the one std enum the crate matches on whose discriminants (-1, 0, 1) differ
                    # from its variant indices (0, 1, 2)
                    return v.vi - 1
                return v.vi
            raise Unsupported("discriminant of %r (%s, place %r)" % (v, fr.fn.id, rv[1]))
        if k == "rep":
            v = self.operand(fr, rv[1])
            if rv[2] is None:
                raise Unsupported("repeat with unknown count")
            return [copy.deepcopy(v) for _ in range(rv[2])]
        raise Unsupported("rvalue %r" % (rv[0],))

    def transmute(self, v, ty):
        if isinstance(v, UninitBox):
            return v
        if type(v).__name__ == "StrBuf" and ty.startswith("*"):
            return v  # Box<str> modelled by its string: the pointer read out of it is the string
        if isinstance(v, Vec):
            if ty.startswith("[u8;") or ty.startswith("[i8;"):
                return [wrap(x, "i8" if ty.startswith("[i8") else "u8") for x in v.b]
            if "__m" in ty or "x16" in ty or "x32" in ty:
                return v
        if isinstance(v, list) and ("__m" in ty):
            return Vec(v)
        if isinstance(v, int) and ty in INT_TYPES:
            return wrap(v, ty)
        raise Unsupported("transmute %r to %s" % (v, ty))

    def binop(self, fr, op, a, b, rv, dest):
        if isinstance(a, Adt) and not a.fields:
            a = a.vi - 1 if a.path.endswith("cmp::Ordering") else a.vi
        if isinstance(b, Adt) and not b.fields:
            b = b.vi - 1 if b.path.endswith("cmp::Ordering") else b.vi
        if op == "Offset":
            if isinstance(a, Ptr):
                return Ptr(a.heap, a.off + b * a.esz, a.esz, a.helem)
            raise Unsupported("Offset on %r" % (a,))
        if isinstance(a, float) or isinstance(b, float):
            if not (isinstance(a, (int, float)) and isinstance(b, (int, float))):
                raise Unsupported("binop %s on %r, %r" % (op, a, b))
            a, b = float(a), float(b)
            if op in ("Eq", "Ne", "Lt", "Le", "Gt", "Ge"):
                return int({"Eq": a == b, "Ne": a != b, "Lt": a < b, "Le": a <= b, "Gt": a > b, "Ge": a >= b}[op])
            import math as _m

            if op == "Add":
                return a + b
            if op == "Sub":
                return a - b
            if op == "Mul":
                try:
                    return a * b
                except OverflowError:
                    return float("inf") if (a > 0) == (b > 0) else float("-inf")
            if op == "Div":
                if b == 0:
                    if a == 0 or a != a:
                        return float("nan")
                    neg = (_m.copysign(1, a) < 0) != (_m.copysign(1, b) < 0)
                    return float("-inf") if neg else float("inf")
                return a / b
            if op == "Rem":
                if b == 0 or a in (float("inf"), float("-inf")):
                    return float("nan")
                return _m.fmod(a, b)
            raise Unsupported("float binop %s" % op)
        if not isinstance(a, int) or not isinstance(b, int):
            raise Unsupported("binop %s on %r, %r" % (op, a, b))
        if op in ("Eq", "Ne", "Lt", "Le", "Gt", "Ge"):
            return int({"Eq": a == b, "Ne": a != b, "Lt": a < b, "Le": a <= b, "Gt": a > b, "Ge": a >= b}[op])
        dty = self.type_of_place(fr, dest)
        if op == "Cmp":
            c = (a > b) - (a < b)
            return Adt("core::cmp::Ordering", c + 1, ["Less", "Equal", "Greater"][c + 1], [])
        if dty not in INT_TYPES and dty != "bool":
            # overflow-checked forms yield tuples
            if op.endswith("WithOverflow"):
                base = op[:-len("WithOverflow")]
                m = re.match(r"^\((\w+), bool\)$", dty)
                if not m:
                    raise Unsupported("overflow op into %s" % dty)
                ity = m.group(1)
                exact = {"Add": a + b, "Sub": a - b, "Mul": a * b}[base]
                w = wrap(exact, ity)
                return [w, int(w != exact)]
            raise Unsupported("binop %s into type %s (%s, place %r)" % (op, dty, fr.fn.id, dest))
        if op == "Add":
            r = a + b
        elif op == "Sub":
            r = a - b
        elif op == "Mul":
            r = a * b
        elif op == "Div":
            if b == 0:
                raise Panic("division by zero")
            r = abs(a) // abs(b) * (1 if (a >= 0) == (b >= 0) else -1)
        elif op == "Rem":
            if b == 0:
                raise Panic("remainder by zero")
            r = abs(a) % abs(b) * (1 if a >= 0 else -1)
        elif op == "BitAnd":
            r = a & b
        elif op == "BitOr":
            r = a | b
        elif op == "BitXor":
            r = a ^ b
        elif op == "Shl":
            bits = INT_TYPES[dty][0] if dty in INT_TYPES else 8
            r = a << (b % bits)
        elif op == "Shr":
            bits = INT_TYPES[dty][0] if dty in INT_TYPES else 8
            r = a >> (b % bits)  # a is mathematical: arithmetic shift for negatives
        else:
            raise Unsupported("binop %s" % op)
        return wrap(r, dty)

    # ------------------------------------------------------------------ calls
    def do_call(self, fr, t, depth):
        fop = t[1]
        args = [self.operand(fr, a) for a in t[2]]
        dest, target = t[3], t[4]
        if fop[0] != "k" or "fn" not in fop[1]:
            # indirect call through a fn item / closure value
            fv = self.operand(fr, fop)
            if isinstance(fv, Ref):
                fv = self.read_path(fv.frame, fv.local, fv.path)
            if isinstance(fv, tuple) and fv and fv[0] == "fnitem":
                k = fv[1]
            else:
                raise Unsupported("indirect call %r" % (fv,))
        else:
            k = fop[1]
        name = self.P.norm(k.get("r", k["fn"]), False)
        fname = self.P.norm(k["fn"], False)
        res = self.dispatch(fr, name, fname, k, args, depth)
        if target is None:
            raise Panic("call to diverging function %s" % name)
        self.write(fr, dest, res)
        return target

    def dispatch(self, fr, name, fname, k, args, depth):
        P = self.P
        if name in self.overrides:
            return self.overrides[name](args)
        for e in self.effect_fns:
            if name == e or name.endswith("::" + e):
                recv = args[0] if args else None
                if isinstance(recv, Ref):
                    recv = self.read_path(recv.frame, recv.local, recv.path)
                rn = recv.name if isinstance(recv, Opaque) else None
                self.effects.append((rn, name.rsplit("::", 1)[-1], tuple(freeze(a) for a in args[1:])))
                h = self.effect_fns[e] if isinstance(self.effect_fns, dict) else None
                if h is not None:
                    return h(self, args)
                return []
        body = P.fns.get(name)
        if body is None and (fr is None or fr.fn is None or fr.fn.crate == "bin"):
            body = P.fns.get("bin::" + name)
        if body is not None and "::" in name and not body.raw.get("self_ty") and body.kind == "assoc":
            # `name` is a trait's provided (default) method: an impl for the receiver's type may override it
            tr_, meth_ = name.rsplit("::", 1)
            impls_ = P.trait_impls().get((tr_, meth_), [])
            if impls_ and args:
                recv_ = args[0]
                for _ in range(3):
                    if isinstance(recv_, Ref):
                        try:
                            recv_ = self.read_path(recv_.frame, recv_.local, recv_.path)
                        except Exception:
                            break
                rpath_ = recv_.path if isinstance(recv_, Adt) else None
                if rpath_:
                    for fid_ in impls_:
                        st_ = P.fns[fid_].raw.get("self_ty", "")
                        if P.norm(st_.split("<", 1)[0], False) == rpath_:
                            body = P.fns[fid_]
                            break
        if body is None and name.startswith("<") and " as " in name:
            # the bin crate prints std traits of lib impls with their private `core::..` path:
            # match on (self type, last trait segment, method)
            idx = getattr(P, "_impl_index", None)
            if idx is None:
                idx = {}
                for fid_ in P.fns:
                    m_ = re.match(r"^<(.*) as ([^<>]*?)(<.*>)?>::([A-Za-z0-9_]+)$", fid_)
                    if m_:
                        idx.setdefault((m_.group(1), m_.group(2).rsplit("::", 1)[-1], m_.group(4)), []).append(fid_)
                P._impl_index = idx
            m_ = re.match(r"^<(.*) as ([^<>]*?)(<.*>)?>::([A-Za-z0-9_]+)$", name)
            if m_:
                c_ = idx.get((m_.group(1), m_.group(2).rsplit("::", 1)[-1], m_.group(4)), [])
                if len(c_) == 1:
                    body = P.fns[c_[0]]
        if body is not None:
            if body.kind == "closure" and len(args) == 2 and isinstance(args[1], list) and body.nargs != 2:
                args = [args[0]] + list(args[1])
            elif body.kind == "closure" and body.nargs == len(args[1]) + 1 if (body.kind == "closure" and len(args) == 2 and isinstance(args[1], list)) else False:
                args = [args[0]] + list(args[1])
            gen = None
            names = body.raw.get("gen") or []
            g = k.get("g", []) if isinstance(k, dict) else []
            if names and len(names) == len(g):
                gen = {}
                for nm, val in zip(names, g):
                    v = val.strip()
                    if v in ("true", "false"):
                        gen[nm] = 1 if v == "true" else 0
                    elif re.fullmatch(r"-?\d+", v):
                        gen[nm] = int(v)
                    elif fr is not None and v in fr.gen:
                        gen[nm] = fr.gen[v]
                    else:
                        gen[nm] = ("ty", v)
            try:
                return self.run(body, args, depth + 1, gen)
            except Unsupported as e_:
                ch = getattr(e_, "chain", None)
                if ch is None:
                    ch = e_.chain = []
                if len(ch) < 8:
                    ch.append("%s%r" % (body.id, gen))
                raise
        # unresolved trait method (generic receiver): dispatch on the receiver's concrete type
        if "::" in name and args:
            tr, meth = name.rsplit("::", 1)
            impls = P.trait_impls().get((tr, meth), [])
            if impls:
                recv = args[0]
                if isinstance(recv, Ref):
                    try:
                        recv = self.read_path(recv.frame, recv.local, recv.path)
                    except Exception:
                        recv = None
                rpath = recv.path if isinstance(recv, Adt) else None
                if rpath:
                    for fid in impls:
                        st = P.fns[fid].raw.get("self_ty", "")
                        if P.norm(st.split("<", 1)[0], False) == rpath:
                            return self.run(P.fns[fid], args, depth + 1)
                # static trait method: Self is the first generic argument (possibly a bound type parameter)
                g = k.get("g", []) if isinstance(k, dict) else []
                if g:
                    selfty = g[0].strip()
                    if fr is not None and selfty in fr.gen and isinstance(fr.gen[selfty], tuple):
                        selfty = fr.gen[selfty][1]
                    for fid in impls:
                        st = P.fns[fid].raw.get("self_ty", "")
                        if st == selfty or P.norm(st, False) == P.norm(selfty, False):
                            return self.run(P.fns[fid], args, depth + 1)
        if "::" in name:
            epath, vname_ = name.rsplit("::", 1)
            a = P.adts.get(epath) or P.adts.get("bin::" + epath)
            if a is not None and a["kind"] in ("Enum", "Struct"):
                for vi, var in enumerate(a["variants"]):
                    if var["name"] == vname_ and len(var["fields"]) == len(args):
                        return Adt(epath, vi, vname_, list(args))
        return self.std(fr, name, fname, k, args, depth)

    def std(self, fr, name, fname, k, args, depth):
        from . import stdmodel

        return stdmodel.call(self, fr, name, fname, k, args, depth)


def split_top(s):
    out, cur, d = [], "", 0
    for ch in s:
        if ch in "(<[":
            d += 1
        elif ch in ")>]":
            d -= 1
        if ch == "," and d == 0:
            out.append(cur)
            cur = ""
        else:
            cur += ch
    if cur.strip():
        out.append(cur)
    return out
