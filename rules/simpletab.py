"""SIMPLETAB — the simple-cursor JSON index evaluated from MIR on a family of valid JSON
documents: `SimpleJsonIndex::build`, then structural_count / structural_pos(k) for every k /
structural_index(pos) for every byte / find_close for every open bracket / skip_value for every
value start, against a reference scanner.  Documents: every value kind, nesting, strings that
contain brackets / commas / colons / escaped quotes / backslashes, white space, and sizes that
put more than 64 structural characters and more than 64 bytes into the index words."""
import json

from .harness import RuleResult
from .minimir import Adt, Interp, Panic, Slice, Unsupported
from .stdmodel import tmp_ref

S = "json::simple_light::SimpleJsonIndex::<W>::"


def opt(r):
    if isinstance(r, Adt) and r.path.endswith("Option"):
        return r.fields[0] if r.vi == 1 else None
    return r


def scan(doc):
    """Reference: (structural positions, {open: close}, {value start: end})."""
    b = doc
    structs = []
    close_of = {}
    value_end = {}
    stack = []
    i = 0
    n = len(b)
    ws = b" \t\r\n"

    def skip_ws(i):
        while i < n and b[i] in ws:
            i += 1
        return i

    def value(i):
        i = skip_ws(i)
        start = i
        c = b[i]
        if c in b"{[":
            structs.append(i)
            close = b"}" if c == ord("{") else b"]"
            i = skip_ws(i + 1)
            if b[i] == close[0]:
                structs.append(i)
                close_of[start] = i
                value_end[start] = i + 1
                return i + 1
            while True:
                if c == ord("{"):
                    i = value(i)  # key string
                    i = skip_ws(i)
                    assert b[i] == ord(":")
                    structs.append(i)
                    i += 1
                i = value(i)
                i = skip_ws(i)
                if b[i] == ord(","):
                    structs.append(i)
                    i = skip_ws(i + 1)
                    continue
                assert b[i] == close[0]
                structs.append(i)
                close_of[start] = i
                value_end[start] = i + 1
                return i + 1
        if c == ord('"'):
            i += 1
            while b[i] != ord('"'):
                i += 2 if b[i] == ord("\\") else 1
            value_end[start] = i + 1
            return i + 1
        while i < n and b[i] not in b",]} \t\r\n:":
            i += 1
        value_end[start] = i
        return i

    value(0)
    return structs, close_of, value_end


def documents(tier):
    docs = [
        '{}', '[]', '0', '"s"', 'null', '[1]', '{"a":1}', ' [ 1 , 2 ] ', '{"a":[1,2,{"b":null}],"c":"x"}',
        '{"k":"[,]{}:"}', '["a\\"b", "c\\\\", "\\\\\\"", "]"]', '{"a\\"]":{"b":[]},"c":[[],{}]}',
        '[[[[[[[[[[1]]]]]]]]]]', '{"a":{"b":{"c":{"d":{"e":[true,false,null,-1.5e+10,"x"]}}}}}',
        '[' + ','.join(str(i) for i in range(40)) + ']',
        '{' + ','.join('"k%d":%d' % (i, i) for i in range(40)) + '}',
        '[' + ','.join('{"id":%d,"tags":["a","b"],"s":"v,%d:]"}' % (i, i) for i in range(12)) + ']',
        '\n{\n  "a" : [ 1 ,\t2 ] ,\r\n  "b" : { "c" : "d" }\n}\n',
        '["' + 'x' * 70 + '", "' + 'y\\"' * 30 + '"]',
        '[' * 33 + ']' * 33,
        '{"a":' * 20 + '1' + '}' * 20,
    ]
    if tier == "thorough":
        docs += ['[' + ','.join('[%d,"%s"]' % (i, 'z' * (i % 7)) for i in range(150)) + ']', '[' * 70 + ']' * 70]
    for d in docs:
        json.loads(d)  # the family is valid JSON by construction; this is a self-check of the rule
    return docs


def rule_simple(progs, tier, name="SIMPLETAB"):
    out = []
    for cfg, P in progs.items():
        res = RuleResult(name, cfg)
        out.append(res)
        I = Interp(P, max_steps=40000000, max_depth=80)
        problems = {}
        nq = 0
        flip = [0]
        try:
            for doc in documents(tier):
                b = doc.encode()
                structs, close_of, value_end = scan(b)
                flip[0] ^= 1
                I.features = {"avx2": bool(flip[0])}
                I.overrides["util::simd::x86::has_fast_bmi2"] = lambda a, f=flip[0]: f
                I.overrides["bits::scan::has_avx2"] = lambda a, f=flip[0]: f
                I.statics.clear()
                ix = I.call("json::simple_light::SimpleJsonIndex::build", [Slice(list(b), 0, len(b))])
                r = tmp_ref(ix)
                js = Slice(list(b), 0, len(b))
                desc = "%d-byte document %r" % (len(b), doc[:40])
                got = I.call(S + "structural_count", [r])
                nq += 1
                if got != len(structs):
                    problems.setdefault("%s:structural_count" % name, "structural_count() = %r, the document has %d structural bytes outside strings (%s)" % (got, len(structs), desc))
                for k in range(len(structs) + 2):
                    got = opt(I.call(S + "structural_pos", [r, k]))
                    exp = structs[k] if k < len(structs) else None
                    nq += 1
                    if got != exp:
                        problems.setdefault("%s:structural_pos" % name, "structural_pos(%d) = %r, expected %r (%s)" % (k, got, exp, desc))
                idx_of = {p: i for i, p in enumerate(structs)}
                for pos in range(len(b) + 1):
                    got = opt(I.call(S + "structural_index", [r, pos]))
                    nq += 1
                    if got != idx_of.get(pos):
                        problems.setdefault("%s:structural_index" % name, "structural_index(%d) = %r, expected %r (%s)" % (pos, got, idx_of.get(pos), desc))
                for o, c in close_of.items():
                    got = opt(I.call(S + "find_close", [r, js, o]))
                    nq += 1
                    if got != c:
                        problems.setdefault("%s:find_close" % name, "find_close(%d) = %r, the matching close is at %d (%s)" % (o, got, c, desc))
                for st, en in value_end.items():
                    got = opt(I.call(S + "skip_value", [r, js, st]))
                    nq += 1
                    if got != en:
                        problems.setdefault("%s:skip_value" % name, "skip_value(%d) = %r, the value ends at %d (%s)" % (st, got, en, desc))
        except Panic as e:
            res.bad("%s:panic" % name, "simple index code panics on %s: %s" % (desc, e))
            continue
        except (Unsupported, KeyError) as e:
            res.bad("%s:evaluate" % name, "cannot evaluate simple index fragment (%s): %s" % (desc, e))
            continue
        for k, m in sorted(problems.items()):
            res.bad(k, m)
        res.cells += nq
        res.engines += 1
        res.ok({"documents": len(documents(tier)), "queries": nq})
    return out
