"""DSVNAV — DSV rows / fields evaluated from MIR: `Dsv::parse_with_config`, then `rows()` ->
`fields()` iteration, `row(n)` and `DsvRow::get(i)` for every n and i (including
out of range), against quote-aware splitting: split at record separators outside quotes (a final
separator does not start an extra row), then at delimiters outside quotes, every field —
including empty ones at the end of a row — returned as its raw bytes; random access equals
iteration; appending a record separator to a non-empty text with balanced quotes that does not
end with one changes nothing.

Family: every byte string up to a bounded length over {delimiter, quote, separator, 'a', CR}
for several configurations of distinct special bytes, plus longer texts that cross the 64-byte
chunk and 512-bit rank block.  Bounded-exhaustive plus boundary texts, not all byte strings."""
import itertools

from .harness import RuleResult
from .minimir import Adt, Interp, Panic, Slice, Unsupported
from .stdmodel import tmp_ref

CONFIGS = [(0x2C, 0x22, 0x0A), (0x09, 0x27, 0x0A), (0x3B, 0x22, 0x0D), (0xA7, 0xFE, 0x0A)]


def split(text, cfg):
    d, q, nl = cfg
    inq = False
    rows, cur, start = [], [], 0
    for i, b in enumerate(text):
        if b == q:
            inq = not inq
        elif not inq and b == d:
            cur.append(bytes(text[start:i]))
            start = i + 1
        elif not inq and b == nl:
            cur.append(bytes(text[start:i]))
            rows.append(cur)
            cur = []
            start = i + 1
    if start < len(text) or cur:
        cur.append(bytes(text[start:]))
        rows.append(cur)
    return rows


def texts(cfg, tier):
    d, q, nl = cfg
    alpha = [d, q, nl, 0x61, 0x0D if nl != 0x0D else 0x0A]
    out = []
    maxl = 5 if tier == "thorough" else 4
    for L in range(0, maxl + 1):
        for t in itertools.product(alpha, repeat=L):
            out.append(bytes(t))
    D, Q, N = bytes([d]), bytes([q]), bytes([nl])
    long_ = [
        b"name" + D + b"age" + D + b"city" + N + b"Alice" + D + b"30" + D + b"NYC" + N + b"Bob" + D + b"25" + D + b"LA" + N,
        (b"a" * 62 + D + b"b" + N) * 3,
        b"x" * 63 + N + b"y" * 64 + D + D + N + D,
        Q + b"q" * 70 + D + N + Q + D + b"z" + N + b"w",
        (b"a" + D) * 40 + N + (D * 70) + N + N + N + b"end",
        Q + Q + D + Q + b"a" + Q + Q + b"b" + Q + N + b"c" + D,
        (b"r" + N) * 300,
        (b"f" + D) * 300,
    ]
    if tier == "thorough":
        long_ += [(b"ab" + D + Q + b"c" + N + b"d" + Q + D + b"e" + N) * 60, b"a" * 600 + N + b"b" * 600]
    return out, long_


def opt(r):
    if isinstance(r, Adt) and r.path.endswith("Option"):
        return r.fields[0] if r.vi == 1 else None
    return r


def sl_bytes(s):
    return bytes(s.heap[s.start:s.start + s.len])


def rule_dsvnav(progs, tier, name="DSVNAV"):
    out = []
    for cfg_name, P in progs.items():
        res = RuleResult(name, cfg_name)
        out.append(res)
        I = Interp(P, max_steps=200000000, max_depth=80)
        problems = {}
        nq = 0
        ntexts = 0
        flip = 0

        def bad(what, msg):
            problems.setdefault("%s:%s" % (name, what), msg)

        def observe(text, cfg):
            nonlocal nq
            conf = Adt("dsv::config::DsvConfig", 0, "DsvConfig", [cfg[0], cfg[1], cfg[2]])
            dsv = I.call("dsv::Dsv::parse_with_config", [Slice(list(text), 0, len(text)), tmp_ref(conf)])
            rd = tmp_ref(dsv)
            rows = []
            it = I.call("dsv::Dsv::rows", [rd])
            rit = tmp_ref(it)
            guard = 0
            while guard < len(text) + 3:
                guard += 1
                r = opt(I.call("<dsv::cursor::DsvRows<'a> as std::iter::Iterator>::next", [rit]))
                nq += 1
                if r is None:
                    break
                fit = tmp_ref(I.call("dsv::cursor::DsvRow::<'a>::fields", [tmp_ref(r)]))
                fs = []
                g2 = 0
                while g2 < len(text) + 3:
                    g2 += 1
                    f = opt(I.call("<dsv::cursor::DsvFields<'a> as std::iter::Iterator>::next", [fit]))
                    nq += 1
                    if f is None:
                        break
                    fs.append(sl_bytes(f))
                rows.append(fs)
            return dsv, rows

        try:
            for cfg in CONFIGS if tier == "thorough" else CONFIGS[:3]:
                small, long_ = texts(cfg, tier)
                if tier != "thorough" and cfg != CONFIGS[0]:
                    small = small[::5]
                for text in small + long_:
                    flip ^= 1
                    I.features = {"avx2": bool(flip), "bmi2": bool(flip), "sse2": True}
                    for f in ("util::simd::x86::has_fast_bmi2", "bits::scan::has_avx2"):
                        I.overrides[f] = lambda a, f=flip: f
                    I.statics.clear()
                    ntexts += 1
                    desc = "text %r with delimiter %#x quote %#x separator %#x" % (text[:60], cfg[0], cfg[1], cfg[2])
                    exp = split(text, cfg)
                    dsv, rows = observe(text, cfg)
                    if rows != exp:
                        bad("rows", "iteration yields %r, quote-aware splitting gives %r (%s)" % (rows[:6], exp[:6], desc))
                        continue
                    rd = tmp_ref(dsv)
                    probe_rows = range(len(exp) + 2) if len(exp) < 12 else [0, 1, len(exp) // 2, len(exp) - 1, len(exp), len(exp) + 1]
                    for n in probe_rows:
                        r = opt(I.call("dsv::Dsv::row", [rd, n]))
                        nq += 1
                        if (r is None) != (n >= len(exp)):
                            bad("row", "row(%d) is %s, the text has %d rows (%s)" % (n, "None" if r is None else "Some", len(exp), desc))
                            break
                        if r is None:
                            continue
                        cols = range(len(exp[n]) + 2) if len(exp[n]) < 12 else [0, 1, len(exp[n]) // 2, len(exp[n]) - 1, len(exp[n]), len(exp[n]) + 1]
                        for i in cols:
                            f = opt(I.call("dsv::cursor::DsvRow::<'a>::get", [tmp_ref(r), i]))
                            nq += 1
                            got = None if f is None else sl_bytes(f)
                            e = exp[n][i] if i < len(exp[n]) else None
                            if got != e:
                                bad("get", "row(%d).get(%d) = %r, iteration gives %r (%s)" % (n, i, got, e, desc))
                                break
                    # appending a record separator to a non-empty balanced text that does not end with one
                    if text and text[-1] != cfg[2] and text.count(bytes([cfg[1]])) % 2 == 0 and len(text) < 80:
                        _, rows2 = observe(text + bytes([cfg[2]]), cfg)
                        if rows2 != rows:
                            bad("final-separator", "appending the record separator changes the rows from %r to %r (%s)" % (rows[:6], rows2[:6], desc))
        except Panic as e:
            res.bad("%s:panic" % name, "DSV navigation panics on %s: %s" % (desc, e))
            continue
        except (Unsupported, KeyError, IndexError, AttributeError, TypeError) as e:
            res.bad("%s:evaluate" % name, "cannot evaluate DSV navigation (%s): %r" % (desc, e))
            continue
        for k, m in sorted(problems.items()):
            res.bad(k, m)
        res.cells += nq
        res.engines += 1
        res.ok({"texts": ntexts, "queries": nq})
    return out
