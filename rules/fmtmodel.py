"""Model of core::fmt for the evaluator: `format_args!` templates (the byte-coded form documented in
core/src/fmt/mod.rs: length-prefixed literal pieces, 0xC0.. placeholders with optional flags /
width / precision / argument index, 0 terminator), `Argument::new_*`, `fmt::format`, `write_fmt`,
`Formatter::{write_str, write_fmt, write_char, pad}`, `ToString::to_string`.  Display of integers,
bool, char, str / String / Cow<str>, f64 (shortest round-trip digits, positional, as Rust prints)
and of crate types through their own `Display::fmt` MIR.  Anything else is `Unsupported`."""
import re
from decimal import Decimal

from .minimir import Adt, Panic, Ref, Slice, Unsupported

INTS = {"u8", "u16", "u32", "u64", "u128", "usize", "i8", "i16", "i32", "i64", "i128", "isize"}


class Formatter:
    """fmt::Formatter: an output sink plus options."""
    __slots__ = ("out", "opts")

    def __init__(self, out, opts=None):
        self.out = out  # python list of bytes
        self.opts = opts or {}

    def __deepcopy__(self, memo):
        return self


def float_display(v, precision=None):
    if v != v:
        return "NaN"
    if v in (float("inf"), float("-inf")):
        return "inf" if v > 0 else "-inf"
    if precision is not None:
        return "%.*f" % (precision, v)
    if v == 0:
        return "-0" if str(v).startswith("-") else "0"
    s = format(Decimal(repr(v)), "f")
    if "." in s:
        s = s.rstrip("0").rstrip(".")
    return s


def float_debug(v):
    s = float_display(v)
    if s in ("NaN", "inf", "-inf"):
        return s
    if abs(v) >= 1e16 or (v != 0 and abs(v) < 1e-4):
        return float_lower_exp(v)
    return s if "." in s else s + ".0"


def float_lower_exp(v):
    if v != v or v in (float("inf"), float("-inf")):
        return float_display(v)
    if v == 0:
        return "0e0"
    d = Decimal(repr(v))
    sign, digits, exp = d.as_tuple()
    digits = list(digits)
    while len(digits) > 1 and digits[-1] == 0:
        digits.pop()
        exp += 1
    e = exp + len(digits) - 1
    m = str(digits[0]) + ("." + "".join(map(str, digits[1:])) if len(digits) > 1 else "")
    return ("-" if sign else "") + m + "e" + str(e)


def str_bytes(I, v):
    from .stdmodel import StrBuf, deref

    for _ in range(4):
        if isinstance(v, Ref):
            v = deref(I, v)
        elif isinstance(v, Adt) and v.path.endswith("borrow::Cow"):
            v = v.fields[0]
        elif type(v).__name__ == "UninitBox" and v.init:
            v = v.cell[0]
        else:
            break
    if isinstance(v, StrBuf):
        return list(v.b)
    if isinstance(v, Slice):
        return list(v.heap[v.start:v.start + v.len])
    return None


def debug_str(b):
    s = bytes(b).decode("utf-8", "surrogateescape")
    out = ['"']
    for ch in s:
        if ch == '"':
            out.append('\\"')
        elif ch == "\\":
            out.append("\\\\")
        elif ch == "\n":
            out.append("\\n")
        elif ch == "\t":
            out.append("\\t")
        elif ch == "\r":
            out.append("\\r")
        elif ch == "\0":
            out.append("\\0")
        elif ord(ch) < 0x20 or ord(ch) == 0x7F:
            out.append("\\u{%x}" % ord(ch))
        elif ord(ch) < 0x7F:
            out.append(ch)
        else:
            raise Unsupported("Debug of a non-ASCII string")
    out.append('"')
    return "".join(out).encode()


def pad(text, opts):
    """text: bytes. width / fill / alignment / zero flag for the simple cases."""
    w = opts.get("width")
    if not w:
        return text
    n = len(bytes(text).decode("utf-8", "replace"))
    if n >= w:
        return text
    flags = opts.get("flags", 0)
    fill = flags & 0x1FFFFF
    fillc = chr(fill).encode() if fill else b" "
    align = (flags >> 29) & 3  # 0 left 1 right 2 center 3 unknown
    if (flags >> 29) & 3 == 3:
        align = opts.get("default_align", 0)
    k = w - n
    if align == 0:
        return text + fillc * k
    if align == 1:
        return fillc * k + text
    return fillc * (k // 2) + text + fillc * (k - k // 2)


def render_value(I, kind, v, typ, opts, depth):
    from .stdmodel import StrBuf, deref, tmp_ref

    val = v
    for _ in range(5):
        if isinstance(val, Ref):
            val = deref(I, val)
    t = typ
    while t.startswith("&"):
        t = re.sub(r"^&(?:'\w+ )?(?:mut )?", "", t).strip()
    prec = opts.get("precision")
    flags = opts.get("flags", 0)
    if t in INTS and isinstance(val, int):
        if kind in ("display", "debug"):
            s = str(val)
        elif kind == "lower_hex":
            s = "%x" % (val & ((1 << 64) - 1) if val < 0 else val)
        elif kind == "upper_hex":
            s = "%X" % (val & ((1 << 64) - 1) if val < 0 else val)
        else:
            raise Unsupported("format %s of integer" % kind)
        if flags & (1 << 24):  # sign-aware zero pad
            w = opts.get("width") or 0
            neg = s.startswith("-")
            body = s[1:] if neg else s
            body = body.rjust(w - (1 if neg else 0), "0")
            return (("-" if neg else "") + body).encode()
        if flags & (1 << 21) and not s.startswith("-"):
            s = "+" + s
        o = dict(opts)
        o["default_align"] = 1
        return pad(s.encode(), o)
    if t == "bool":
        return pad(b"true" if val else b"false", opts)
    if t == "char" and isinstance(val, int):
        if kind != "display":
            raise Unsupported("Debug of char")
        return pad(chr(val).encode("utf-8", "surrogatepass"), opts)
    if t in ("f64", "f32") and isinstance(val, (int, float)):
        fv = float(val)
        if kind == "display":
            s = float_display(fv, prec)
        elif kind == "debug":
            s = float_debug(fv) if prec is None else float_display(fv, prec)
        elif kind == "lower_exp":
            s = float_lower_exp(fv)
        else:
            raise Unsupported("format %s of float" % kind)
        o = dict(opts)
        o["default_align"] = 1
        return pad(s.encode(), o)
    sb = str_bytes(I, val)
    if sb is not None and (t in ("str", "std::string::String", "alloc::string::String", "std::boxed::Box<str>", "alloc::boxed::Box<str>") or t.startswith("std::borrow::Cow<") or t.startswith("alloc::borrow::Cow<")):
        if kind == "display":
            if prec is not None:
                sb = list(bytes(sb).decode("utf-8", "replace")[:prec].encode())
            return pad(bytes(sb), opts)
        if kind == "debug":
            return debug_str(sb)
        raise Unsupported("format %s of str" % kind)
    if (t.startswith("impl ") or re.fullmatch(r"[A-Z][A-Za-z0-9]*", t)) and kind == "display":
        # a generic parameter: print by the value's runtime kind (a `char` passed through a generic
        # parameter would be indistinguishable from an integer here and is not expected in this crate)
        if isinstance(val, bool):
            return pad(b"true" if val else b"false", opts)
        if isinstance(val, int):
            return render_value(I, kind, val, "i128", opts, depth)
        if isinstance(val, float):
            return render_value(I, kind, val, "f64", opts, depth)
        if sb is not None:
            return pad(bytes(sb), opts)
    # crate types: run their own Display / Debug impl
    trait = {"display": "Display", "debug": "Debug", "lower_hex": "LowerHex", "upper_hex": "UpperHex", "lower_exp": "LowerExp"}[kind]
    for tt in (t, t.split("<")[0]):
        for pref in ("std", "core"):
            cand = "<%s as %s::fmt::%s>::fmt" % (tt, pref, trait)
            body = I.P.fns.get(I.P.norm(cand, False))
            if body is not None:
                f = Formatter([], dict(opts))
                r = I.run(body, [v if isinstance(v, Ref) else tmp_ref(val), tmp_ref(f)], depth + 1)
                if isinstance(r, Adt) and r.vname == "Err":
                    raise Unsupported("Display impl returned Err")
                return bytes(f.out)
    fs = I.P.find("<%s as " % t) if hasattr(I.P, "find") else []
    raise Unsupported("no fmt model for %s of type %s (%r)" % (kind, typ, val))


def render(I, args, depth):
    """args: Adt model::FmtArgs [template bytes or None, list of FmtArg, literal bytes]"""
    tpl, argv, lit = args.fields
    if tpl is None:
        return bytes(lit)
    out = bytearray()
    i = 0
    ai = 0
    while True:
        n = tpl[i]
        i += 1
        if n == 0:
            return bytes(out)
        if n < 0x80:
            out += bytes(tpl[i:i + n])
            i += n
            continue
        if n == 0x80:
            ln = tpl[i] | (tpl[i + 1] << 8)
            i += 2
            out += bytes(tpl[i:i + ln])
            i += ln
            continue
        opts = {}
        if n & 1:
            opts["flags"] = int.from_bytes(bytes(tpl[i:i + 4]), "little")
            i += 4
        if n & 2:
            opts["width"] = tpl[i] | (tpl[i + 1] << 8)
            i += 2
        if n & 4:
            opts["precision"] = tpl[i] | (tpl[i + 1] << 8)
            i += 2
        if n & 8:
            ai = tpl[i] | (tpl[i + 1] << 8)
            i += 2
        if n & 16:
            opts["width"] = argv[opts["width"]].fields[0]
        if n & 32:
            opts["precision"] = argv[opts["precision"]].fields[0]
        a = argv[ai]
        ai += 1
        out += render_value(I, a.vname, a.fields[0], a.fields[1], opts, depth)


def sink_write(I, out, data, depth):
    """Append rendered bytes to whatever `out` (a &mut W) designates."""
    from .stdmodel import StrBuf, as_slice, deref

    tgt = out
    for _ in range(3):
        if isinstance(tgt, Ref):
            tgt = deref(I, tgt)
    if isinstance(tgt, Formatter):
        tgt.out.extend(data)
        return True
    if isinstance(tgt, StrBuf):
        tgt.b.extend(data)
        return True
    if isinstance(tgt, list):
        tgt.extend(data)
        return True
    return False


def crate_sink(I, out, data, depth, prefer=None):
    """`out` designates a crate type that implements fmt::Write: route the bytes through its own
    `write_str` (or `write_char` when asked and present).  Returns the call's result or None."""
    from .stdmodel import deref

    tgt = out
    for _ in range(3):
        if isinstance(tgt, Ref):
            tgt = deref(I, tgt)
    if not isinstance(tgt, Adt):
        return None
    idx = getattr(I.P, "_fmtwrite_index", None)
    if idx is None:
        idx = {}
        for fid_ in I.P.fns:
            m_ = re.match(r"^<([A-Za-z0-9_:]+)(<.*>)? as (?:std|core)::fmt::Write>::(write_str|write_char)$", fid_)
            if m_:
                idx[(m_.group(1), m_.group(3))] = fid_
        I.P._fmtwrite_index = idx
    ref = out if isinstance(out, Ref) else None
    if ref is None:
        return None
    if prefer == "write_char" and (tgt.path, "write_char") in idx and len(data.decode("utf-8", "replace")) == 1:
        return I.run(I.P.fns[idx[(tgt.path, "write_char")]], [ref, ord(data.decode("utf-8", "surrogatepass"))], depth + 1)
    fid_ = idx.get((tgt.path, "write_str"))
    if fid_ is None:
        return None
    return I.run(I.P.fns[fid_], [ref, Slice(list(data), 0, len(data))], depth + 1)


def call(I, fr, name, fname, k, args, depth):
    """Returns (handled, value)."""
    from .stdmodel import StrBuf, as_slice, deref, err, ok

    OK = lambda: Adt("core::result::Result", 0, "Ok", [[]])  # noqa: E731
    if "fmt::rt::Argument::<'_>::new_" in name:
        kind = name.rsplit("::new_", 1)[1]
        g = k.get("g") or []
        return True, Adt("model::FmtArg", 0, kind, [args[0], g[-1] if g else ""])
    if name.endswith("fmt::rt::Argument::<'_>::from_usize"):
        return True, Adt("model::FmtArg", 0, "usize", [deref(I, args[0]), "usize"])
    if name.endswith("fmt::Arguments::<'a>::new"):
        tpl = as_slice(I, args[0])
        av = deref(I, args[1])
        if isinstance(av, Slice):
            av = av.heap[av.start:av.start + av.len]
        return True, Adt("model::FmtArgs", 0, "Args", [list(tpl.heap[tpl.start:tpl.start + tpl.len]), list(av), None])
    if name.endswith("fmt::Arguments::<'a>::from_str") or name.endswith("fmt::Arguments::<'a>::from_str_nonconst") or name.endswith("fmt::Arguments::<'a>::new_const"):
        s = as_slice(I, args[0])
        return True, Adt("model::FmtArgs", 0, "Args", [None, [], list(s.heap[s.start:s.start + s.len])])
    if name.endswith("fmt::format") or name.endswith("fmt::format::format_inner"):
        return True, StrBuf(list(render(I, args[0], depth)))
    if name.endswith("io::_eprint") or name.endswith("io::_print"):
        # process streams: the text is kept on the interpreter for the rule to inspect
        chan = "stderr" if name.endswith("_eprint") else "stdout"
        if not hasattr(I, "streams"):
            I.streams = {"stderr": [], "stdout": []}
        I.streams[chan].append(bytes(render(I, args[0], depth)))
        return True, []
    if name.endswith("fmt::Arguments::<'a>::as_str") or name.endswith("fmt::Arguments::<'a>::as_statically_known_str"):
        a = args[0] if isinstance(args[0], Adt) else deref(I, args[0])
        from .stdmodel import NONE, some

        if a.fields[0] is None:
            b = a.fields[2]
            return True, some(Slice(list(b), 0, len(b)))
        return True, NONE()
    if name.endswith("string::ToString>::to_string") or fname.endswith("string::ToString::to_string"):
        g = k.get("g") or []
        typ = g[0] if g else ""
        sb = str_bytes(I, args[0])
        if sb is not None and (typ in ("str", "std::string::String") or "Cow<" in typ):
            return True, StrBuf(list(sb))
        return True, StrBuf(list(render_value(I, "display", args[0], typ, {}, depth)))
    if name.endswith("fmt::Formatter::<'a>::write_str") or name.endswith("fmt::Formatter::<'a>::pad"):
        f = deref(I, args[0])
        if not isinstance(f, Formatter):
            raise Unsupported("Formatter method on %r" % (f,))
        s = as_slice(I, args[1])
        data = bytes(s.heap[s.start:s.start + s.len])
        f.out.extend(pad(data, f.opts) if name.endswith("::pad") else data)
        return True, OK()
    if name.endswith("fmt::Formatter::<'a>::write_fmt"):
        f = deref(I, args[0])
        f.out.extend(render(I, args[1], depth))
        return True, OK()
    if name.endswith("fmt::Formatter::<'a>::alternate"):
        return True, int(bool(deref(I, args[0]).opts.get("flags", 0) & (1 << 23)))
    if name.endswith("fmt::Formatter::<'a>::width") or name.endswith("fmt::Formatter::<'a>::precision"):
        from .stdmodel import NONE, some

        v = deref(I, args[0]).opts.get("width" if name.endswith("width") else "precision")
        return True, some(v) if v is not None else NONE()
    if name.endswith("fmt::Write::write_fmt") or name.endswith("fmt::Write>::write_fmt") or name.endswith("io::Write::write_fmt") or name.endswith("io::Write>::write_fmt"):
        data = render(I, args[1], depth)
        if sink_write(I, args[0], data, depth):
            return True, OK()
        r_ = crate_sink(I, args[0], data, depth)
        if r_ is not None:
            return True, r_
        raise Unsupported("write_fmt into %r" % (deref(I, args[0]),))
    if name.endswith("fmt::Write::write_str") or name.endswith("fmt::Write>::write_str") or name.endswith("string::String as std::fmt::Write>::write_str"):
        s = as_slice(I, args[1])
        data = bytes(s.heap[s.start:s.start + s.len])
        if sink_write(I, args[0], data, depth):
            return True, OK()
        r_ = crate_sink(I, args[0], data, depth)
        if r_ is not None:
            return True, r_
        return False, None
    if name.endswith("fmt::Write::write_char") or name.endswith("fmt::Write>::write_char"):
        data = chr(args[1]).encode("utf-8", "surrogatepass")
        if sink_write(I, args[0], data, depth):
            return True, OK()
        r_ = crate_sink(I, args[0], data, depth, prefer="write_char")
        if r_ is not None:
            return True, r_
        return False, None
    if name.endswith("io::Write::write_all") or name.endswith("io::Write>::write_all"):
        s = as_slice(I, args[1])
        if sink_write(I, args[0], bytes(s.heap[s.start:s.start + s.len]), depth):
            return True, OK()
        return False, None
    return False, None
