"""CHARMAP — JSON string-body writers (`jq::escape::write_json_body_*`) evaluated from MIR:
for every character of a boundary-complete set (all of U+0000..U+00FF, every UTF-8 length and
UTF-16 plane boundary and their neighbours, surrogate-adjacent values, U+10FFFF) the emitted
body must (1) decode back to the character under RFC 8259 section 7 and (2) differ from the raw
character exactly when the convention requires escaping; plus multi-character strings that
exercise the span-copying loop of the yq writer across the escape scanner's vector widths."""
import json

from .harness import RuleResult
from .minimir import Interp, Opaque, Panic, Slice, Unsupported
from .stdmodel import ok


def charset(tier):
    cs = set(range(0x100))
    for b in (0x100, 0x7FF, 0x800, 0xFFF, 0x1000, 0x2028, 0x2029, 0xD7FF, 0xE000, 0xFEFF, 0xFFFD, 0xFFFE, 0xFFFF, 0x10000, 0x10001, 0x103FF, 0x10400, 0x1F600, 0xFFFFF, 0x100000, 0x10FFFE, 0x10FFFF):
        cs.add(b)
    if tier == "thorough":
        cs |= set(range(0x100, 0x900, 7)) | set(range(0xD000, 0xD800, 37)) | set(range(0xE000, 0x10000, 251)) | set(range(0x10000, 0x110000, 4093))
    return sorted(c for c in cs if not (0xD800 <= c <= 0xDFFF))


CONV = {
    "write_json_body_jq": lambda c: c < 0x20 or c in (0x22, 0x5C, 0x7F),
    "write_json_body_jq_ascii": lambda c: c < 0x20 or c in (0x22, 0x5C, 0x7F) or c >= 0x80,
    "write_json_body_yq": lambda c: c < 0x20 or c in (0x22, 0x5C),
    "write_json_body_yq_ascii": lambda c: c < 0x20 or c in (0x22, 0x5C) or c >= 0x80,
}


def run_writer(I, fn, text):
    data = list(text.encode("utf-8"))
    I.reset()
    r = I.call("jq::escape::" + fn, [Opaque("out"), Slice(data, 0, len(data))])
    out = bytearray()
    for recv, meth, args in I.effects:
        if meth == "write_str":
            a = args[0]
            out += bytes(a[1]) if isinstance(a, tuple) and a[0] == "slice" else b""
        elif meth == "write_char":
            out += chr(args[0]).encode("utf-8")
    return out.decode("utf-8")


def rule_json_writers(progs, tier, name="CHARMAP(json writers)"):
    out = []
    for cfg, P in progs.items():
        res = RuleResult(name, cfg)
        out.append(res)
        handlers = {"fmt::Write::write_str": lambda I, a: ok([]), "fmt::Write::write_char": lambda I, a: ok([])}
        chars = charset(tier)
        for fn, must_escape in CONV.items():
            bad = None
            n = 0
            try:
                for flag in (1, 0):
                    I = Interp(P, effect_fns=handlers, max_steps=400000)
                    I.overrides["util::simd::escape::avx2_enabled"] = lambda args, f=flag: f
                    if flag == 0 and fn != "write_json_body_yq":
                        continue
                    for c in chars:
                        ch = chr(c)
                        body = run_writer(I, fn, ch)
                        n += 1
                        try:
                            back = json.loads('"' + body + '"')
                        except Exception as e:
                            back = "<undecodable: %s>" % e
                        if back != ch:
                            bad = bad or (c, body, "decodes to %r" % (back,))
                        if (body != ch) != must_escape(c):
                            bad = bad or (c, body, "escaped=%s but the convention says %s" % (body != ch, must_escape(c)))
                    # multi-character strings: consecutive escapes, escapes across 16/32-byte widths
                    strings = ['"\\', "\n\n\n", 'a"b\\c\u0001d', "x" * 15 + '"' + "y" * 16 + "\\" + "z" * 33 + "\u001f", "é" * 9 + '"' + "\U0001F600\u007f\u0008", "p" * 31 + "\\" + '"' + "q" * 32 + "\t", ""]
                    for sidx, st in enumerate(strings):
                        body = run_writer(I, fn, st)
                        n += 1
                        try:
                            back = json.loads('"' + body + '"')
                        except Exception as e:
                            back = "<undecodable: %s>" % e
                        if back != st:
                            bad = bad or ("string#%d" % sidx, body[:60], "decodes to %r" % (back[:60],))
                        exp = "".join(body_of(fn, must_escape, ord(x)) for x in st)
                        if body != exp:
                            bad = bad or ("string#%d" % sidx, body[:60], "expected %r" % (exp[:60],))
            except Panic as e:
                res.bad("%s:%s" % (name, fn), "writer %s panics: %s" % (fn, e))
                continue
            except (Unsupported, KeyError) as e:
                res.bad("%s:%s" % (name, fn), "cannot evaluate writer %s: %s" % (fn, e))
                continue
            res.cells += n
            res.engines += 1
            if bad:
                res.bad("%s:%s" % (name, fn), "writer %s on %s emits %r: %s" % ((fn, ("U+%04X" % bad[0]) if isinstance(bad[0], int) else bad[0], bad[1], bad[2])))
            else:
                res.ok({"writer": fn, "cases": n, "chars": len(chars)})
        res.require_floor(4, "writers")
    return out


SHORT_JQ = {0x22: '\\"', 0x5C: "\\\\", 0x08: "\\b", 0x0C: "\\f", 0x0A: "\\n", 0x0D: "\\r", 0x09: "\\t"}
SHORT_YQ = {0x22: '\\"', 0x5C: "\\\\", 0x0A: "\\n", 0x0D: "\\r", 0x09: "\\t"}


def body_of(fn, must_escape, c):
    """The documented spelling (module table of jq/escape.rs)."""
    if not must_escape(c):
        return chr(c)
    short = SHORT_JQ if "jq" in fn else SHORT_YQ
    if c in short:
        return short[c]
    if c < 0x10000:
        return "\\u%04x" % c
    a = c - 0x10000
    return "\\u%04x\\u%04x" % (0xD800 + (a >> 10), 0xDC00 + (a & 0x3FF))
