"""CHARMAP — JSON string-body writers (`jq::escape::write_json_body_*`) evaluated from MIR:
for every character of a boundary-complete set (all of U+0000..U+00FF, every UTF-8 length and
UTF-16 plane boundary and their neighbours, surrogate-adjacent values, U+10FFFF) the emitted
body must (1) decode back to the character under RFC 8259 section 7 and (2) differ from the raw
character exactly when the convention requires escaping; plus multi-character strings that
exercise the span-copying loop of the yq writer across the escape scanner's vector widths."""
import json

from .harness import RuleResult
from .minimir import Interp, Opaque, Panic, Slice, Unsupported
from .stdmodel import ok


def charset(tier):
    cs = set(range(0x100))
    for b in (0x100, 0x7FF, 0x800, 0xFFF, 0x1000, 0x2028, 0x2029, 0xD7FF, 0xE000, 0xFEFF, 0xFFFD, 0xFFFE, 0xFFFF, 0x10000, 0x10001, 0x103FF, 0x10400, 0x1F600, 0xFFFFF, 0x100000, 0x10FFFE, 0x10FFFF):
        cs.add(b)
    if tier == "thorough":
        cs |= set(range(0x100, 0x900, 7)) | set(range(0xD000, 0xD800, 37)) | set(range(0xE000, 0x10000, 251)) | set(range(0x10000, 0x110000, 4093))
    return sorted(c for c in cs if not (0xD800 <= c <= 0xDFFF))


CONV = {
    "write_json_body_jq": lambda c: c < 0x20 or c in (0x22, 0x5C, 0x7F),
    "write_json_body_jq_ascii": lambda c: c < 0x20 or c in (0x22, 0x5C, 0x7F) or c >= 0x80,
    "write_json_body_yq": lambda c: c < 0x20 or c in (0x22, 0x5C),
    "write_json_body_yq_ascii": lambda c: c < 0x20 or c in (0x22, 0x5C) or c >= 0x80,
}


def run_writer(I, fn, text):
    data = list(text.encode("utf-8"))
    I.reset()
    r = I.call("jq::escape::" + fn, [Opaque("out"), Slice(data, 0, len(data))])
    out = bytearray()
    for recv, meth, args in I.effects:
        if meth == "write_str":
            a = args[0]
            out += bytes(a[1]) if isinstance(a, tuple) and a[0] == "slice" else b""
        elif meth == "write_char":
            out += chr(args[0]).encode("utf-8")
    return out.decode("utf-8")


def rule_json_writers(progs, tier, name="CHARMAP(json writers)"):
    out = []
    for cfg, P in progs.items():
        res = RuleResult(name, cfg)
        out.append(res)
        handlers = {"fmt::Write::write_str": lambda I, a: ok([]), "fmt::Write::write_char": lambda I, a: ok([])}
        chars = charset(tier)
        for fn, must_escape in CONV.items():
            bad = None
            n = 0
            try:
                for flag in (1, 0):
                    I = Interp(P, effect_fns=handlers, max_steps=400000)
                    I.overrides["util::simd::escape::avx2_enabled"] = lambda args, f=flag: f
                    if flag == 0 and fn != "write_json_body_yq":
                        continue
                    for c in chars:
                        ch = chr(c)
                        body = run_writer(I, fn, ch)
                        n += 1
                        try:
                            back = json.loads('"' + body + '"')
                        except Exception as e:
                            back = "<undecodable: %s>" % e
                        if back != ch:
                            bad = bad or (c, body, "decodes to %r" % (back,))
                        if (body != ch) != must_escape(c):
                            bad = bad or (c, body, "escaped=%s but the convention says %s" % (body != ch, must_escape(c)))
                    # multi-character strings: consecutive escapes, escapes across 16/32-byte widths
                    strings = ['"\\', "\n\n\n", 'a"b\\c\u0001d', "x" * 15 + '"' + "y" * 16 + "\\" + "z" * 33 + "\u001f", "é" * 9 + '"' + "\U0001F600\u007f\u0008", "p" * 31 + "\\" + '"' + "q" * 32 + "\t", ""]
                    for sidx, st in enumerate(strings):
                        body = run_writer(I, fn, st)
                        n += 1
                        try:
                            back = json.loads('"' + body + '"')
                        except Exception as e:
                            back = "<undecodable: %s>" % e
                        if back != st:
                            bad = bad or ("string#%d" % sidx, body[:60], "decodes to %r" % (back[:60],))
                        exp = "".join(body_of(fn, must_escape, ord(x)) for x in st)
                        if body != exp:
                            bad = bad or ("string#%d" % sidx, body[:60], "expected %r" % (exp[:60],))
            except Panic as e:
                res.bad("%s:%s" % (name, fn), "writer %s panics: %s" % (fn, e))
                continue
            except (Unsupported, KeyError) as e:
                res.bad("%s:%s" % (name, fn), "cannot evaluate writer %s: %s" % (fn, e))
                continue
            res.cells += n
            res.engines += 1
            if bad:
                res.bad("%s:%s" % (name, fn), "writer %s on %s emits %r: %s" % ((fn, ("U+%04X" % bad[0]) if isinstance(bad[0], int) else bad[0], bad[1], bad[2])))
            else:
                res.ok({"writer": fn, "cases": n, "chars": len(chars)})
        res.require_floor(4, "writers")
    return out


SHORT_JQ = {0x22: '\\"', 0x5C: "\\\\", 0x08: "\\b", 0x0C: "\\f", 0x0A: "\\n", 0x0D: "\\r", 0x09: "\\t"}
SHORT_YQ = {0x22: '\\"', 0x5C: "\\\\", 0x0A: "\\n", 0x0D: "\\r", 0x09: "\\t"}


def body_of(fn, must_escape, c):
    """The documented spelling (module table of jq/escape.rs)."""
    if not must_escape(c):
        return chr(c)
    short = SHORT_JQ if "jq" in fn else SHORT_YQ
    if c in short:
        return short[c]
    if c < 0x10000:
        return "\\u%04x" % c
    a = c - 0x10000
    return "\\u%04x\\u%04x" % (0xD800 + (a >> 10), 0xDC00 + (a & 0x3FF))


# ------------------------------------------------------------------------------------------
def ref_decode(body):
    """RFC 8259 section 7 string-body decoder (reference): returns str or None (reject).
    Lone surrogate escapes are rejected (they denote no Unicode scalar value)."""
    out = []
    i = 0
    n = len(body)
    while i < n:
        b = body[i]
        if b != 0x5C:
            j = i
            while j < n and body[j] != 0x5C:
                j += 1
            try:
                out.append(bytes(body[i:j]).decode("utf-8"))
            except UnicodeDecodeError:
                return None
            i = j
            continue
        if i + 1 >= n:
            return None
        c = body[i + 1]
        simple = {0x22: '"', 0x5C: "\\", 0x2F: "/", 0x62: "\b", 0x66: "\f", 0x6E: "\n", 0x72: "\r", 0x74: "\t"}
        if c in simple:
            out.append(simple[c])
            i += 2
            continue
        if c != 0x75:
            return None

        def hex4(k):
            if k + 4 > n:
                return None
            try:
                s = bytes(body[k:k + 4]).decode("ascii")
            except UnicodeDecodeError:
                return None
            if not all(ch in "0123456789abcdefABCDEF" for ch in s):
                return None
            return int(s, 16)

        cp = hex4(i + 2)
        if cp is None:
            return None
        i += 6
        if 0xD800 <= cp <= 0xDBFF:
            if i + 1 < n and body[i] == 0x5C and body[i + 1] == 0x75:
                lo = hex4(i + 2)
                if lo is None or not (0xDC00 <= lo <= 0xDFFF):
                    return None
                out.append(chr(0x10000 + ((cp - 0xD800) << 10) + (lo - 0xDC00)))
                i += 6
            else:
                return None
        elif 0xDC00 <= cp <= 0xDFFF:
            return None
        else:
            out.append(chr(cp))
    return "".join(out)


def decode_family(tier):
    fam = []
    for x in range(256):
        fam.append([0x5C, x])
        fam.append([0x61, 0x5C, x, 0x62])
    cps = ["0000", "0008", "001f", "0020", "007F", "0080", "07ff", "0800", "d7ff", "D800", "dbff", "DC00", "dfff", "e000", "FFFF", "00e9", "65E5"]
    for h in cps:
        fam.append(list(("\\u" + h).encode()))
        fam.append(list(("x\\u" + h + "y").encode()))
    for pos in range(4):
        for ch in "09afAFgG/:@` \"\\\x00\xff":
            h = list("0041")
            h[pos] = ch
            fam.append(list(b"\\u") + [ord(c) & 0xFF for c in h])
    for hi in ("D800", "dbff", "D83D"):
        for lo in ("DBFF", "DC00", "DE00", "dfff", "E000", "0041", "D800"):
            fam.append(list(("\\u%s\\u%s" % (hi, lo)).encode()))
            fam.append(list(("a\\u%s\\u%sb" % (hi, lo)).encode()))
        for sep in ("\\n", "x", "\\", "\\U", " "):
            fam.append(list(("\\u%s%s" % (hi, sep)).encode()))
    full = list(b"\\uD83D\\uDE00")
    for cut in range(len(full) + 1):
        for extra in ([], [0x41], [0x22], [0x5C]):
            fam.append(full[:cut] + extra)
            fam.append([0x7A] + full[:cut] + extra)
    fam += [[], [0x5C], [0x61, 0x5C], list("é日😀".encode()), [0x61, 0xC3], [0xFF], [0xC3, 0x28], list(b"plain ascii text"), list(b"a\\\\b\\\"c\\/d")]
    return fam


def rule_json_decoder(progs, tier, name="CHARMAP(decode_escapes)"):
    """json::light::decode_escapes evaluated from MIR on a boundary-complete family of string
    bodies: every byte after a backslash, \\u escapes at every code-point boundary and with every
    hex-digit class at every position, surrogate pairs (valid, reversed, lone, followed by other
    escapes), every truncation of a surrogate pair, and raw UTF-8 runs.  It must never panic,
    and must decode exactly as RFC 8259 section 7 defines (reject = Err)."""
    out = []
    for cfg, P in progs.items():
        res = RuleResult(name, cfg)
        out.append(res)
        I = Interp(P, max_steps=400000)
        from .stdmodel import StrBuf

        bad = None
        n = 0
        try:
            for body in decode_family(tier):
                r = I.call("json::light::decode_escapes", [Slice(list(body), 0, len(body))])
                exp = ref_decode(body)
                n += 1
                if r.vname == "Ok":
                    got = bytes(r.fields[0].b).decode("utf-8", "surrogatepass") if isinstance(r.fields[0], StrBuf) else None
                else:
                    got = None
                if got != exp and bad is None:
                    bad = (body, got, exp)
        except Panic as e:
            res.bad("%s:panic" % name, "decode_escapes panics on string body %r: %s" % (bytes(body), e))
            continue
        except (Unsupported, KeyError) as e:
            res.bad("%s:evaluate" % name, "cannot evaluate decode_escapes on %r: %s" % (bytes(body), e))
            continue
        res.cells += n
        res.engines += 1
        if bad:
            res.bad("%s:map" % name, "decode_escapes(%r) gives %r, RFC 8259 section 7 gives %r" % (bytes(bad[0]), bad[1], bad[2]))
        else:
            res.ok({"fn": "json::light::decode_escapes", "bodies": n})
    return out


# ------------------------------------------------------------------------------------------
def _str_consts(f):
    out = set()

    def walk(x):
        if isinstance(x, list):
            if len(x) == 2 and x[0] == "k" and isinstance(x[1], dict):
                if "str" in x[1]:
                    out.add(x[1]["str"])
                r = x[1].get("ref")
                if isinstance(r, dict) and "str" in r:
                    out.add(r["str"])
            else:
                for y in x:
                    walk(y)

    for b in f.blocks:
        walk(b["s"])
        walk(b["t"])
    return out


VERIFIED_JSON_WRITERS = {
    "jq::escape::write_json_body_jq", "jq::escape::write_json_body_jq_ascii",
    "jq::escape::write_json_body_yq", "jq::escape::write_json_body_yq_ascii",
}


def rule_writer_registry(progs, tier, entries=(r"^bin::jq_runner::", r"^bin::output::", r"^jq::stream::", r"^jq::value::OwnedValue::to_json"), exclude=r"^yaml::|^bin::yq_runner::|^jq::eval::yaml_|locate::|^jq::stream::stream_yaml|^json::light::stream_json_yaml", name="REACH(json writers)"):
    """Who-may-escape rule for the jq print routes: every function that carries the JSON
    escape-writer idiom (it emits both the `\\"` and the `\\\\` spelling) and is reachable from the jq
    print entry points without passing through YAML-side / locate / YAML-output code must be one of
    the writers verified by CHARMAP.  A new ad-hoc escaper on a print route is reported."""
    out = []
    import re as _re

    for cfg, P in progs.items():
        res = RuleResult(name, cfg)
        out.append(res)
        idiom = sorted(f.id for f in P.fns.values() if {'\\"', "\\\\"} <= _str_consts(f))
        if len(idiom) < 4:
            res.bad("%s:anchor" % name, "only %d functions with the escape-writer idiom found (anchor missing)" % len(idiom))
            continue
        roots = [fid for fid in P.fns if any(_re.search(e, fid) for e in entries) and P.fns[fid].kind != "closure"]
        cg = P.callgraph()
        seen = set(r for r in roots if not _re.search(exclude, r))
        st = list(seen)
        while st:
            n = st.pop()
            for m in cg.get(n, ()):
                if m not in seen and not _re.search(exclude, m):
                    seen.add(m)
                    st.append(m)
        reach_writers = [w for w in idiom if w in seen]
        for w in reach_writers:
            if w in VERIFIED_JSON_WRITERS:
                res.ok({"writer": w, "verified_by": "CHARMAP(json writers)"})
            else:
                chain = P.call_path(roots, w)
                res.bad("%s:%s" % (name, w), "%s carries the JSON escape-writer idiom, is reachable from the jq print routes (%s) and is not one of the verified writers %s" % (w, " -> ".join(chain[-4:]) if chain else "?", sorted(VERIFIED_JSON_WRITERS)), P.fns[w].loc())
        res.note("functions with the escape idiom in the crate: %s" % idiom)
        res.require_floor(3, "verified writers reachable from the print routes")
    return out
