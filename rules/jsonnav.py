"""JSONNAV — the JSON index evaluated from MIR on a family of valid RFC 8259 documents:
`JsonIndex::build`, then a full walk from the root through `JsonCursor::value`, `JsonFields::uncons`,
`JsonField::key / value_cursor`, `JsonElements::uncons_cursor`, `JsonString::as_str`,
`JsonNumber::raw_bytes / as_i64 / as_f64`, with, at every node, `text_position`, `text_range`,
`raw_bytes`, `parent`, the `first_child / next_sibling` chain, and `JsonFields::find_cursor` for every
key — against a reference reader (spans from a recursive-descent scanner, values from Python's
json module, which is a conforming RFC 8259 parser).  rule_ibpos (C07): `ib_rank1` at every
position, `ib_select1` for every k (and k >= ones), `ib_select1_from` for every k and every hint
0..=words+10, `cursor_at_offset` for every byte offset and `cursor_at_position` for the equivalent
line/column pair.

Family: every value kind, nesting past 128 levels, every escape form incl. surrogate pairs, every
number shape, all four white-space bytes in every gap, duplicate keys, empty containers, strings
holding structural characters, documents crossing the 64-bit word / 512-bit rank block / 32-byte
SIMD chunk boundaries (thorough: the 2048-bit BP blocks).  A family, not all documents."""
import json

from .harness import RuleResult
from .minimir import Adt, Interp, Panic, Ref, Slice, Unsupported
from .stdmodel import StrBuf, deref, tmp_ref

C = "json::light::JsonCursor::<'a, W>::"
X = "json::light::JsonIndex::<W>::"
WS = b" \t\r\n"


# ------------------------------------------------------------------ reference reader
class Node:
    __slots__ = ("kind", "start", "end", "kids", "fields", "value", "parent")

    def __init__(self, kind, start):
        self.kind, self.start, self.end = kind, start, None
        self.kids = []  # child nodes in document order (object: key, value, key, value ...)
        self.fields = []  # (key node, value node)
        self.value = None
        self.parent = None


def read(b):
    n = len(b)

    def ws(i):
        while i < n and b[i] in WS:
            i += 1
        return i

    def value(i, parent):
        i = ws(i)
        c = b[i]
        if c in b"{[":
            nd = Node("object" if c == ord("{") else "array", i)
            nd.parent = parent
            close = ord("}") if c == ord("{") else ord("]")
            i = ws(i + 1)
            if b[i] == close:
                nd.end = i + 1
                return nd, i + 1
            while True:
                if nd.kind == "object":
                    k, i = value(i, nd)
                    assert k.kind == "string"
                    i = ws(i)
                    assert b[i] == ord(":")
                    v, i = value(i + 1, nd)
                    nd.fields.append((k, v))
                    nd.kids += [k, v]
                else:
                    v, i = value(i, nd)
                    nd.kids.append(v)
                i = ws(i)
                if b[i] == ord(","):
                    i += 1
                    continue
                assert b[i] == close
                nd.end = i + 1
                return nd, i + 1
        if c == ord('"'):
            nd = Node("string", i)
            nd.parent = parent
            j = i + 1
            while b[j] != ord('"'):
                j += 2 if b[j] == ord("\\") else 1
            nd.end = j + 1
            nd.value = json.loads(bytes(b[i:j + 1]).decode("utf-8"))
            return nd, j + 1
        j = i
        while j < n and b[j] not in b",]} \t\r\n:":
            j += 1
        tok = bytes(b[i:j]).decode()
        nd = Node({"t": "bool", "f": "bool", "n": "null"}.get(tok[0], "number"), i)
        nd.parent = parent
        nd.end = j
        nd.value = json.loads(tok)
        return nd, j

    root, i = value(0, None)
    assert ws(i) == n
    return root


def all_nodes(root):
    out = []
    st = [root]
    while st:
        x = st.pop()
        out.append(x)
        st.extend(reversed(x.kids))
    return out


# ------------------------------------------------------------------ family
def documents(tier):
    esc = r'"q\"b\\s\/f\b\f\n\r\tAé€😀𝄞 end"'
    nums = "[0,-0,1,-1,12,1.5,-0.25,1e5,1E5,1e+5,1e-5,-1.25E-3,0.0,0e0,123456789012,9007199254740993,1.7976931348623157e308,5e-324,-9223372036854775808,9223372036854775807,18446744073709551615,1e400]"
    deep = 200 if tier == "thorough" else 131
    docs = [
        "0", "-1", '""', '"a"', "true", "false", "null", "[]", "{}", "[[]]", "[{}]", '{"a":{}}', '{"":0}',
        '{"a":1}', "[1,2,3]", '{"a":[1,2,{"b":null}],"c":"x\\n","d":-1.5e3,"e":true}',
        nums, "[" + esc + "," + esc + "]", "{" + esc + ":" + esc + "}",
        '{"k":"[,]{}:\\"","[":"]","{":"}",",":":"}',
        '{"a":1,"b":2,"a":3,"c":4,"b":5,"a":6}', '{"x":{"y":1,"y":{"z":2,"z":3}},"x":[1]}',
        ' \t\r\n[ \t\r\n1 \t\r\n, \t\r\n{ \t\r\n"a" \t\r\n: \t\r\n"b" \t\r\n} \t\r\n, \t\r\n[ \t\r\n] \t\r\n] \t\r\n',
        "\n{\n  \"a\" : [ 1 ,\t2 ] ,\r\n  \"b\" : { \"c\" : \"d\" }\n}\n",
        "[" * deep + "]" * deep, '{"a":' * (deep - 1) + "1" + "}" * (deep - 1), "[" * 70 + '{"k":[' * 10 + "7" + "]}" * 10 + "]" * 70,
        "[" + ",".join(str(i) for i in range(90)) + "]",
        "{" + ",".join('"k%d":%d' % (i, i) for i in range(70)) + "}",
        "[" + ",".join('{"id":%d,"tags":["a","b"],"s":"v,%d:]"}' % (i, i) for i in range(14)) + "]",
        '["' + "x" * 70 + '", "' + 'y\\"' * 30 + '", "' + "\\\\" * 33 + '"]',
        '["é日本語𝄞", "é€"]',
        "[" + ",".join('"%s"' % ("s" * i) for i in range(40)) + "]",
        "[" + ",".join("[" * (i % 5) + str(i) + "]" * (i % 5) for i in range(200)) + "]",
    ]
    if tier == "thorough":
        docs += [
            "[" + ",".join('{"id":%d,"n":[%d,%d],"s":"%s"}' % (i, i, i + 1, "z" * (i % 9)) for i in range(600)) + "]",
            # arrays whose parentheses cross the 2048-bit BP blocks (the 65536-bit level is BPTAB's L2-scale family:
            # walking every node of a 70000-element document does not finish in the evaluator)
            "[[" + ",".join(["1"] * 1100) + "],[[" + ",".join(["1"] * 1300) + "]]]",
            '{"small":[' + ",".join(["1"] * 1100) + '],"big":{"items":[' + ",".join(["[1]"] * 700) + "]}}",
        ]
    for d in docs:
        json.loads(d)  # self-check: the family is valid JSON by construction
    return docs


def opt(r):
    if isinstance(r, Adt) and r.path.endswith("Option"):
        return r.fields[0] if r.vi == 1 else None
    return r


def cow_str(I, r):
    """Result<Cow<str>, _> -> python str or None"""
    if not (isinstance(r, Adt) and r.vname == "Ok"):
        return None
    c = r.fields[0]
    v = c.fields[0] if isinstance(c, Adt) else c
    v = deref(I, v)
    if isinstance(v, StrBuf):
        return bytes(v.b).decode("utf-8", "surrogatepass")
    if isinstance(v, Slice):
        return bytes(v.heap[v.start:v.start + v.len]).decode("utf-8", "surrogatepass")
    raise Unsupported("Cow payload %r" % (v,))


tier_quick = True


class Walker:
    def __init__(self, I, P, doc, name):
        self.I, self.P, self.name = I, P, name
        self.b = doc.encode("utf-8")
        self.js = Slice(list(self.b), 0, len(self.b))
        self.problems = {}
        self.n = 0
        self.desc = "%d-byte document %r" % (len(self.b), doc[:48])

    def bad(self, what, msg):
        self.problems.setdefault("%s:%s" % (self.name, what), "%s (%s)" % (msg, self.desc))

    def call(self, f, args):
        self.n += 1
        return self.I.call(f, args)

    def bp(self, cur):
        return cur.fields[2]

    def check_positions(self, cur, nd):
        """text_position of every node, reached through the first_child / next_sibling chain only."""
        st = [(cur, nd)]
        while st:
            cur, nd = st.pop()
            tp = opt(self.call(C + "text_position", [tmp_ref(cur)]))
            if tp != nd.start:
                self.bad("text_position", "text_position() = %r for the %s that starts at byte %d" % (tp, nd.kind, nd.start))
                return
            ch = opt(self.call(C + "first_child", [tmp_ref(cur)]))
            i = 0
            while ch is not None and i < len(nd.kids):
                st.append((ch, nd.kids[i]))
                ch = opt(self.call(C + "next_sibling", [tmp_ref(ch)]))
                i += 1
            if ch is not None or i != len(nd.kids):
                self.bad("children", "the %s at byte %d has %d children, the cursor chain yields %s" % (nd.kind, nd.start, len(nd.kids), "more" if ch is not None else i))
                return

    def check_node(self, cur, nd, parent_cur):
        I = self.I
        rc = tmp_ref(cur)
        tp = opt(self.call(C + "text_position", [rc]))
        if tp != nd.start:
            self.bad("text_position", "text_position() = %r for the %s that starts at byte %d" % (tp, nd.kind, nd.start))
        tr = opt(self.call(C + "text_range", [rc]))
        if tr is None or tuple(tr) != (nd.start, nd.end):
            self.bad("text_range", "text_range() = %r for the %s spanning bytes %d..%d" % (tr, nd.kind, nd.start, nd.end))
        rb = opt(self.call(C + "raw_bytes", [rc]))
        if rb is not None:
            rb = bytes(rb.heap[rb.start:rb.start + rb.len])
        if rb != self.b[nd.start:nd.end]:
            self.bad("raw_bytes", "raw_bytes() = %r for the %s whose source is %r" % (rb and rb[:40], nd.kind, self.b[nd.start:nd.end][:40]))
        par = opt(self.call(C + "parent", [rc]))
        exp_par = None if parent_cur is None else self.bp(parent_cur)
        if (None if par is None else self.bp(par)) != exp_par:
            self.bad("parent", "parent() of the %s at byte %d is BP %r, expected %r" % (nd.kind, nd.start, None if par is None else self.bp(par), exp_par))
        # child chain
        ch = opt(self.call(C + "first_child", [rc]))
        starts = []
        guard = 0
        while ch is not None and guard <= len(nd.kids) + 2:
            starts.append(opt(self.call(C + "text_position", [tmp_ref(ch)])))
            ch = opt(self.call(C + "next_sibling", [tmp_ref(ch)]))
            guard += 1
        if starts != [k.start for k in nd.kids]:
            self.bad("children", "first_child/next_sibling chain of the %s at byte %d visits starts %r, its children start at %r" % (nd.kind, nd.start, starts[:12], [k.start for k in nd.kids][:12]))
        v = self.call(C + "value", [rc])
        kind = {"Object": "object", "Array": "array", "String": "string", "Number": "number", "Bool": "bool", "Null": "null"}.get(v.vname, v.vname)
        if kind != nd.kind:
            self.bad("kind", "value() of the %s at byte %d is %s" % (nd.kind, nd.start, v.vname))
            return
        if kind == "string":
            s = cow_str(I, self.call("json::light::JsonString::<'a>::as_str", [tmp_ref(v.fields[0])]))
            if s != nd.value:
                self.bad("string", "as_str() = %r for the token %r (a conforming parser reads %r)" % (s, self.b[nd.start:nd.end][:40], nd.value))
        elif kind == "number":
            nr = tmp_ref(v.fields[0])
            raw = self.call("json::light::JsonNumber::<'a>::raw_bytes", [nr])
            raw = bytes(raw.heap[raw.start:raw.start + raw.len])
            if raw != self.b[nd.start:nd.end]:
                self.bad("number-span", "JsonNumber::raw_bytes() = %r for the token %r" % (raw, self.b[nd.start:nd.end]))
            f = self.call("json::light::JsonNumber::<'a>::as_f64", [nr])
            fv = f.fields[0] if f.vname == "Ok" else None
            exp = float(nd.value)
            if fv is None or (fv != exp and not (fv != fv and exp != exp)):
                self.bad("number-f64", "as_f64() = %r for the token %r (expected %r)" % (fv, self.b[nd.start:nd.end], exp))
            if isinstance(nd.value, int) and -(2**63) <= nd.value < 2**63:
                r = self.call("json::light::JsonNumber::<'a>::as_i64", [nr])
                iv = r.fields[0] if r.vname == "Ok" else None
                if iv != nd.value:
                    self.bad("number-i64", "as_i64() = %r for the token %r" % (iv, self.b[nd.start:nd.end]))
        elif kind == "bool":
            if bool(v.fields[0]) != nd.value:
                self.bad("bool", "value() = Bool(%r) for the token %r" % (v.fields[0], self.b[nd.start:nd.end]))
        elif kind == "array":
            els = v.fields[0]
            i = 0
            while True:
                r = opt(self.call("json::light::JsonElements::<'a, W>::uncons_cursor", [tmp_ref(els)]))
                if r is None:
                    break
                if i >= len(nd.kids):
                    self.bad("array-length", "array at byte %d yields more than its %d elements" % (nd.start, len(nd.kids)))
                    break
                cc, els = r[0], r[1]
                self.check_node(cc, nd.kids[i], cur)
                i += 1
            if i < len(nd.kids):
                self.bad("array-length", "array at byte %d yields %d of its %d elements" % (nd.start, i, len(nd.kids)))
        elif kind == "object":
            fs = v.fields[0]
            i = 0
            while True:
                r = opt(self.call("json::light::JsonFields::<'a, W>::uncons", [tmp_ref(fs)]))
                if r is None:
                    break
                if i >= len(nd.fields):
                    self.bad("object-length", "object at byte %d yields more than its %d fields" % (nd.start, len(nd.fields)))
                    break
                fld, fs = r[0], r[1]
                kn, vn = nd.fields[i]
                kv = self.call("json::light::JsonField::<'a, W>::key", [tmp_ref(fld)])
                if kv.vname != "String":
                    self.bad("key", "key() of field %d of the object at byte %d is %s" % (i, nd.start, kv.vname))
                else:
                    s = cow_str(I, self.call("json::light::JsonString::<'a>::as_str", [tmp_ref(kv.fields[0])]))
                    if s != kn.value:
                        self.bad("key", "key() of field %d of the object at byte %d reads %r, the source key is %r" % (i, nd.start, s, kn.value))
                kc = self.call("json::light::JsonField::<'a, W>::key_cursor", [tmp_ref(fld)])
                self.check_node(kc, kn, cur)
                vc = self.call("json::light::JsonField::<'a, W>::value_cursor", [tmp_ref(fld)])
                self.check_node(vc, vn, cur)
                i += 1
            if i < len(nd.fields):
                self.bad("object-length", "object at byte %d yields %d of its %d fields" % (nd.start, i, len(nd.fields)))
            last = {}
            for kn, vn in nd.fields:
                last[kn.value] = vn
            keys = list(last.items())
            if tier_quick and len(keys) > 8:
                keys = keys[:3] + keys[len(keys) // 2:len(keys) // 2 + 2] + keys[-3:]
            for key, vn in keys:
                kb = key.encode("utf-8", "surrogatepass")
                fc = opt(self.call("json::light::JsonFields::<'a, W>::find_cursor", [tmp_ref(v.fields[0]), Slice(list(kb), 0, len(kb))]))
                got = None if fc is None else opt(self.call(C + "text_position", [tmp_ref(fc)]))
                if got != vn.start:
                    self.bad("find", "find_cursor(%r) on the object at byte %d lands on byte %r, the last occurrence's value starts at %d" % (key, nd.start, got, vn.start))


def _mk(I, flip):
    I.features = {"avx2": bool(flip), "bmi2": bool(flip), "sse4.1": True, "sse4.2": True, "ssse3": True}
    for f in ("util::simd::x86::has_fast_bmi2", "bits::scan::has_avx2"):
        I.overrides[f] = lambda a, f=flip: f
    I.statics.clear()


def rule_nav(progs, tier, name="JSONNAV", positions_only=False):
    out = []
    for cfg, P in progs.items():
        res = RuleResult(name, cfg)
        out.append(res)
        I = Interp(P, max_steps=400000000, max_depth=600)
        global tier_quick
        tier_quick = tier != "thorough"
        problems = {}
        nq = 0
        nodes = 0
        flip = 0
        try:
            for doc in documents(tier):
                flip ^= 1
                _mk(I, flip)
                w = Walker(I, P, doc, name)
                root = read(w.b)
                ix = I.call("json::light::JsonIndex::build", [w.js])
                cur = I.call(X + "root", [tmp_ref(ix), w.js])
                if positions_only:
                    w.check_positions(cur, root)
                else:
                    w.check_node(cur, root, None)
                nq += w.n
                nodes += len(all_nodes(root))
                for k, m in w.problems.items():
                    problems.setdefault(k, m)
        except Panic as e:
            res.bad("%s:panic" % name, "JSON index navigation panics on %s: %s" % (w.desc, e))
            continue
        except (Unsupported, KeyError, IndexError, AttributeError, TypeError) as e:
            res.bad("%s:evaluate" % name, "cannot evaluate JSON navigation fragment (%s): %r" % (w.desc, e))
            continue
        for k, m in sorted(problems.items()):
            res.bad(k, m)
        res.cells += nq
        res.engines += 1
        res.ok({"documents": len(documents(tier)), "nodes_walked": nodes, "queries": nq})
    return out


def garbage(tier):
    """Arbitrary (non-JSON) byte strings over an alphabet rich in structural characters."""
    alpha = b'{}[],:"\\ \n\t-0e.tfnau\xc3\xa9\x00\xff'
    out = [b"", b"}", b"]]]]", b'"', b'"\\', b"{" * 70, b'[1,2,"a\\"]' * 9, b":,:,:," * 15]
    x = 12345
    for n in (3, 17, 64, 65, 130, 300) if tier != "thorough" else (3, 17, 31, 32, 33, 64, 65, 130, 300, 520, 1030):
        for _ in range(2 if tier != "thorough" else 6):
            bs = []
            for _ in range(n):
                x = (x * 1103515245 + 12345) & 0x7FFFFFFF
                bs.append(alpha[(x >> 8) % len(alpha)])
            out.append(bytes(bs))
    return out


def rule_ibpos(progs, tier, name="JSONPOS"):
    """C07: interest-bit rank / select (+ hinted select) against the interest bits themselves, on
    JSON texts and arbitrary byte strings; offset -> node and line/column -> node on JSON texts."""
    out = []
    for cfg, P in progs.items():
        res = RuleResult(name, cfg)
        out.append(res)
        I = Interp(P, max_steps=400000000, max_depth=600)
        problems = {}
        nq = 0
        flip = 0
        inputs = [(d.encode("utf-8"), True) for d in documents(tier) if len(d) < (100000 if tier == "thorough" else 1000)] + [(g, False) for g in garbage(tier)]
        try:
            for data, is_json in inputs:
                flip ^= 1
                _mk(I, flip)
                desc = "%d-byte %s %r" % (len(data), "document" if is_json else "byte string", data[:40])
                js = Slice(list(data), 0, len(data))
                ix = I.call("json::light::JsonIndex::build", [js])
                rx = tmp_ref(ix)
                ibs = I.call(X + "ib", [rx])
                words = ibs.heap[ibs.start:ibs.start + ibs.len]
                ib_len = I.call(X + "ib_len", [rx])
                bits = [i for i in range(min(ib_len, 64 * len(words))) if (words[i // 64] >> (i % 64)) & 1]
                def bad(what, msg):
                    problems.setdefault("%s:%s" % (name, what), "%s (%s)" % (msg, desc))
                for pos in range(0, len(data) + 3):
                    got = I.call(X + "ib_rank1", [rx, pos])
                    nq += 1
                    exp = sum(1 for b_ in bits if b_ < pos)
                    if got != exp:
                        bad("ib_rank1", "ib_rank1(%d) = %r, the interest bits below that position number %d" % (pos, got, exp))
                        break
                sel = {}
                for k in range(0, len(bits) + 3):
                    got = opt(I.call(X + "ib_select1", [rx, k]))
                    nq += 1
                    sel[k] = got
                    exp = bits[k] if k < len(bits) else None
                    if got != exp:
                        bad("ib_select1", "ib_select1(%d) = %r, the %d-th interest bit is at %r" % (k, got, k, exp))
                        break
                ks = list(range(0, len(bits) + 2))
                if tier != "thorough" and len(ks) > 24:
                    ks = ks[:6] + ks[len(ks) // 2 - 3:len(ks) // 2 + 3] + ks[-8:]
                elif len(ks) > 400:
                    # k x hint is quadratic in the document: on the long documents every 13th k, and both ends
                    ks = sorted(set(ks[:40] + ks[::13] + ks[-40:]))
                done = False
                for k in ks:
                    for hint in range(0, len(words) + 11):
                        got = opt(I.call(X + "ib_select1_from", [rx, k, hint]))
                        nq += 1
                        exp = bits[k] if k < len(bits) else None
                        if got != exp:
                            bad("ib_select1_from", "ib_select1_from(%d, hint %d) = %r, the %d-th interest bit is at %r" % (k, hint, got, k, exp))
                            done = True
                            break
                    if done:
                        break
                if not is_json:
                    continue
                root = read(data)
                starts = sorted(n.start for n in all_nodes(root))
                cur = I.call(X + "root", [rx, js])
                rc = tmp_ref(cur)
                import bisect

                offs = range(0, len(data) + 2)
                if tier != "thorough" and len(data) > 300:
                    offs = sorted(set(list(range(0, 140)) + list(range(len(data) - 70, len(data) + 2)) + list(range(140, len(data), 7))))
                for off in offs:
                    i = bisect.bisect_right(starts, off) - 1
                    exp = starts[i] if (i >= 0 and off < len(data)) else None
                    c = opt(I.call(C + "cursor_at_offset", [rc, off]))
                    nq += 1
                    got = None if c is None else opt(I.call(C + "text_position", [tmp_ref(c)]))
                    if got != exp:
                        bad("cursor_at_offset", "cursor_at_offset(%d) lands on the node starting at %r, the node with the greatest start not after that byte starts at %r" % (off, got, exp))
                        break
                    if off < len(data):
                        lc = I.call(X + "to_line_column", [rx, off, js])
                        c2 = opt(I.call(C + "cursor_at_position", [rc, lc[0], lc[1]]))
                        nq += 1
                        got2 = None if c2 is None else opt(I.call(C + "text_position", [tmp_ref(c2)]))
                        if got2 != exp:
                            bad("cursor_at_position", "cursor_at_position(%d, %d) (offset %d) lands on the node starting at %r, expected %r" % (lc[0], lc[1], off, got2, exp))
                            break
        except Panic as e:
            res.bad("%s:panic" % name, "JSON index code panics on %s: %s" % (desc, e))
            continue
        except (Unsupported, KeyError, IndexError, AttributeError, TypeError) as e:
            res.bad("%s:evaluate" % name, "cannot evaluate JSON index fragment (%s): %r" % (desc, e))
            continue
        for k, m in sorted(problems.items()):
            res.bad(k, m)
        res.cells += nq
        res.engines += 1
        res.ok({"inputs": len(inputs), "queries": nq})
    return out
