"""WRITERREADER(a) — locate path printers vs the expression parser (C28, C29).

The printer side (`json::locate` / `yaml::locate`: can_use_dot_notation, escape_jq_string) and
the reader side (`jq::parser::Parser`: is_expr_terminator, parse_ident, parse_string_literal)
are both evaluated from MIR on a boundary-complete key family:
  * whenever the printer chooses the dot form `.K`, the parser positioned after the dot must not
    see an expression terminator, and parse_ident must consume exactly K (for every continuation
    the printer can append: end, `.x`, `[0]`);
  * whenever the printer chooses the bracket form `["E"]`, parse_string_literal on `"E"` must
    return K.
Key family: every ASCII character alone and as second character, every keyword string the
parser passes to matches_keyword (extracted from the parser's MIR) with prefix/suffix/case
variants, hyphenated keys (yq mode), digits, quotes, backslashes, control characters,
interpolation openers, and non-ASCII alphabetic / numeric / symbol characters."""
from .harness import RuleResult
from .minimir import Adt, Interp, Panic, Ref, Slice, Unsupported
from .stdmodel import StrBuf, tmp_ref
from .core import op_place
from .dataflow import local_defs

PARSER = "jq::parser::Parser::<'a>::"


def parser_keywords(P):
    """All string literals passed to Parser::matches_keyword anywhere in the parser."""
    kws = set()
    for f in P.fns.values():
        if not f.id.startswith("jq::parser::"):
            continue
        defs = local_defs(f)
        for c in f.calls:
            if c.name.endswith("::matches_keyword") and len(c.args) >= 2:
                a = c.args[1]
                for _hop in range(4):
                    if a[0] == "k":
                        break
                    pl = op_place(a)
                    ds = defs.get(pl[0], []) if pl is not None else []
                    if len(ds) != 1 or ds[0][1] != "rv":
                        break
                    rv = ds[0][2]
                    if rv[0] == "use":
                        a = rv[1]
                    elif rv[0] == "ref":
                        a = ["c", [rv[2][0], []]]
                    else:
                        break
                if a[0] == "k" and "str" in a[1]:
                    kws.add(a[1]["str"])
    return kws


def key_family(P, tier):
    keys = set([""])
    for c in range(0x20, 0x7F):
        ch = chr(c)
        keys.add(ch)
        keys.add("a" + ch)
        keys.add(ch + "a")
        keys.add("a" + ch + "b")
    for ch in ("\n", "\t", "\r", "\x00", "\x1f", "\x7f", "é", "日", "ª", "٣", "Ⅰ", "😀", "​", "ǅ", "_", "__", "ß9", "x́"):
        keys.add(ch)
        keys.add("a" + ch)
        keys.add(ch + "a")
    kws = parser_keywords(P)
    for k in kws:
        keys |= {k, k + "x", k[:-1], "_" + k, k + "_", k.capitalize(), k.upper(), k + "1", "x" + k, k + "-a", k + " b"}
    keys |= {"my-key", "a-", "-a", "a--b", "a-1", "1a", "123", "a.b", "a b", 'q"uote', "back\\slash", "\\(x)", "tab\there", "line\nbreak", "null", "true", "false", "not", "if", "def", "reduce", "foreach", "try", "import", "include", "label", "__loc__", "ENV", "input", "$x", "@base64", "..", "?", "a?"}
    return sorted(keys), kws


def mk_parser(P, text, mode):
    a = P.adts["jq::parser::Parser"]
    names = [f["name"] for f in a["variants"][0]["fields"]]
    b = list(text.encode("utf-8", "surrogatepass"))
    vals = {"input": Slice(b, 0, len(b)), "pos": 0, "mode": Adt("jq::parser::ParserMode", 0 if mode == "Jq" else 1, mode, []), "pattern_depth": 0, "expr_depth": 0}
    return Adt("jq::parser::Parser", 0, "Parser", [vals[n] for n in names]), names


def sbytes(v):
    if isinstance(v, StrBuf):
        return bytes(v.b)
    if isinstance(v, Slice):
        return bytes(v.heap[v.start:v.start + v.len])
    raise Unsupported("expected string, got %r" % (v,))


def rule_locate(progs, tier, module="json::locate", mode="Jq", name="WRITERREADER(locate)"):
    out = []
    for cfg, P in progs.items():
        res = RuleResult(name, cfg)
        out.append(res)
        I = Interp(P, max_steps=400000)
        keys, kws = key_family(P, tier)
        if len(kws) < 20:
            res.bad("%s:anchor" % name, "only %d keyword literals found in the parser (anchor missing)" % len(kws))
            continue
        problems = {}
        n_dot = n_br = 0
        try:
            for K in keys:
                kb = list(K.encode("utf-8"))
                dot = I.call(module + "::can_use_dot_notation", [Slice(kb, 0, len(kb))])
                if dot:
                    n_dot += 1
                    for tail in ("", ".x", "[0]", " | 1", "?"):
                        p, names = mk_parser(P, K + tail, mode)
                        ref = tmp_ref(p)
                        term = I.call(PARSER + "is_expr_terminator", [ref])
                        if term:
                            problems.setdefault("%s:dot-terminator" % name, "printer emits `.%s` but the parser, positioned after the dot, reads an expression terminator there (the expression parses as `.` followed by an operator/keyword)" % K)
                            continue
                        r = I.call(PARSER + "parse_ident", [ref])
                        if r.vname != "Ok" or sbytes(r.fields[0]) != K.encode("utf-8"):
                            got = sbytes(r.fields[0]).decode("utf-8", "replace") if r.vname == "Ok" else "<parse error>"
                            problems.setdefault("%s:dot-ident" % name, "printer emits `.%s%s` but parse_ident reads %r as the field name" % (K, tail, got))
                else:
                    n_br += 1
                    e = I.call(module + "::escape_jq_string", [Slice(kb, 0, len(kb))])
                    eb = sbytes(e)
                    for tail in ("]", "].x"):
                        p, names = mk_parser(P, '"' + eb.decode("utf-8") + '"' + tail, mode)
                        ref = tmp_ref(p)
                        try:
                            r = I.call(PARSER + "parse_string_literal", [ref])
                        except Unsupported as ex:
                            if "interpol" in str(ex):
                                raise
                            raise
                        if r.vname != "Ok" or sbytes(r.fields[0]) != K.encode("utf-8"):
                            got = sbytes(r.fields[0]).decode("utf-8", "replace") if r.vname == "Ok" else "<parse error>"
                            problems.setdefault("%s:bracket-string" % name, "printer emits [\"%s\"] for key %r but parse_string_literal reads %r" % (eb.decode("utf-8", "replace"), K, got))
        except Panic as e:
            res.bad("%s:panic" % name, "fragment panics on key %r: %s" % (K, e))
            continue
        except (Unsupported, KeyError) as e:
            res.bad("%s:evaluate" % name, "cannot evaluate printer/parser fragment on key %r: %s" % (K, e))
            continue
        for k, m in sorted(problems.items()):
            res.bad(k, m)
        res.cells += n_dot * 5 + n_br * 2
        res.engines += 2
        res.ok({"module": module, "mode": mode, "keys": len(keys), "dot_form": n_dot, "bracket_form": n_br, "parser_keywords": len(kws)})
    return out
