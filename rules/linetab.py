"""LINETAB (C12) — `text::lines::LineIndex` evaluated from MIR: `build`, then `to_line_column`
under query histories (every query is checked against a naive scan, so an answer that depends on
the cached previous query shows up), `to_offset` round trip, `line_start`, `line_count`.
Texts: every string up to length 5 over {LF, CR, 'a'} with every pair of offsets queried in
both orders; long texts of 70 lines with LF / CR / CRLF breaks in every mix (and empty lines),
queried with forward jumps of every size 1..40 lines from line starts, line middles and line
ends (the cache's forward-walk cap is read from the crate), backward jumps, exact repeats and
offsets past the end.  Bounded histories (length 2..3), not all query sequences."""
import itertools

from .harness import RuleResult
from .minimir import Adt, Interp, Panic, Slice, Unsupported
from .stdmodel import tmp_ref

L = "text::lines::LineIndex::"


def starts_of(t):
    st = [0]
    i = 0
    while i < len(t):
        if t[i] == 0x0D and i + 1 < len(t) and t[i + 1] == 0x0A:
            i += 2
            st.append(i)
        elif t[i] in (0x0A, 0x0D):
            i += 1
            st.append(i)
        else:
            i += 1
    # a break that ends the text starts no line: offsets at or past the end are reported against
    # the last line (LineIndex's documented convention; no in-bounds offset is affected)
    return [x for x in st if x < len(t) or x == 0]


def spec_lc(st, off):
    import bisect

    i = bisect.bisect_right(st, off) - 1
    return (i + 1, off - st[i] + 1)


def opt(r):
    if isinstance(r, Adt) and r.path.endswith("Option"):
        return r.fields[0] if r.vi == 1 else None
    return r


def long_texts():
    out = []
    brks = [b"\n", b"\r", b"\r\n"]
    for mode in range(5):
        t = b""
        for i in range(70):
            body = b"x" * ((i * 7 + mode) % 9)
            if mode < 3:
                br = brks[mode]
            elif mode == 3:
                br = brks[i % 3]
            else:
                br = brks[(i * i + 1) % 3] if i % 5 else b"\n\n"
            t += body + br
        out.append(t + (b"tail" if mode % 2 else b""))
    return out


def rule_lines(progs, tier, name="LINETAB"):
    out = []
    for cfg, P in progs.items():
        res = RuleResult(name, cfg)
        out.append(res)
        I = Interp(P, max_steps=50000000, max_depth=80)
        cap = P.consts.get("text::lines::FORWARD_WALK_CAP")
        if cap is None or "v" not in cap:
            res.bad("%s:anchor" % name, "constant text::lines::FORWARD_WALK_CAP not found (fail closed)")
            continue
        cap = cap["v"]
        problems = {}
        nq = 0

        def bad(what, msg):
            problems.setdefault("%s:%s" % (name, what), msg)

        def build(t):
            I.statics.clear()
            return tmp_ref(I.call(L + "build", [Slice(list(t), 0, len(t))]))

        def check(ix, st, t, off, hist):
            nonlocal nq
            r = I.call(L + "to_line_column", [ix, off])
            nq += 1
            exp = spec_lc(st, off)
            if tuple(r) != exp:
                bad("to_line_column", "to_line_column(%d) = %r after the queries %r, a naive scan gives %r (text %r)" % (off, tuple(r), hist, exp, bytes(t)[:60]))
                return False
            if off < len(t):
                o = opt(I.call(L + "to_offset", [ix, r[0], r[1]]))
                nq += 1
                if o != off:
                    bad("round-trip", "to_offset%r = %r, the pair came from offset %d (text %r)" % (tuple(r), o, off, bytes(t)[:60]))
                    return False
            return True

        try:
            maxl = 5 if tier == "thorough" else 4
            for n in range(0, maxl + 1):
                for t in itertools.product((0x0A, 0x0D, 0x61), repeat=n):
                    st = starts_of(t)
                    ix = build(t)
                    lc = I.call(L + "line_count", [ix])
                    nq += 1
                    if lc != len(st):
                        bad("line_count", "line_count() = %r, a naive scan finds %d lines (text %r)" % (lc, len(st), bytes(t)))
                    for a in range(n + 3):
                        for b_ in range(n + 3):
                            ix2 = build(t) if (a + b_) % 2 else ix
                            if not (check(ix2, st, t, a, []) and check(ix2, st, t, b_, [a]) and check(ix2, st, t, a, [a, b_])):
                                break
                    for ln in range(0, len(st) + 2):
                        got = opt(I.call(L + "line_start", [ix, ln]))
                        nq += 1
                        exp = st[ln - 1] if 1 <= ln <= len(st) else None
                        if got != exp:
                            bad("line_start", "line_start(%d) = %r, expected %r (text %r)" % (ln, got, exp, bytes(t)))
            for t in long_texts():
                st = starts_of(t)
                ix = build(t)
                nl = len(st)

                def spots(li):
                    s0 = st[li]
                    e0 = (st[li + 1] if li + 1 < nl else len(t))
                    return sorted({s0, min(s0 + 1, max(e0 - 1, s0)), max(e0 - 1, s0)})

                jumps = list(range(1, 41)) if tier == "thorough" else sorted({1, 2, cap - 1, cap, cap + 1, cap + 2, 2 * cap, 2 * cap + 1, 39})
                for base in ((0, 3, 11) if tier == "thorough" else (0, 5)):
                    for j in jumps:
                        if base + j >= nl:
                            continue
                        for a in spots(base):
                            for b_ in spots(base + j):
                                check(ix, st, t, a, ["..."])
                                check(ix, st, t, b_, [a])
                                check(ix, st, t, b_, [a, b_])
                                check(ix, st, t, a, [a, b_, b_])  # backward jump
                for off in (len(t), len(t) + 1, len(t) + 1000, 0, len(t) - 1):
                    check(ix, st, t, off, ["past-end sweep"])
        except Panic as e:
            res.bad("%s:panic" % name, "LineIndex panics: %s" % e)
            continue
        except (Unsupported, KeyError, IndexError, AttributeError, TypeError) as e:
            res.bad("%s:evaluate" % name, "cannot evaluate LineIndex: %r" % (e,))
            continue
        for k, m in sorted(problems.items()):
            res.bad(k, m)
        res.cells += nq
        res.engines += 1
        res.ok({"queries": nq, "forward_walk_cap": cap})
    return out
