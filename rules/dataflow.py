"""Small intraprocedural helpers over a function's MIR: local definitions, backward slices."""
from collections import defaultdict

from .core import op_place


def local_defs(f):
    """local -> list of (bb, kind, payload); kind in rv|partial|call."""
    if getattr(f, "_defs", None) is not None:
        return f._defs
    defs = defaultdict(list)
    for bi, b in enumerate(f.blocks):
        for si, s in enumerate(b["s"]):
            if s[0] == "a":
                if not s[1][1]:
                    defs[s[1][0]].append((bi, "rv", s[2]))
                else:
                    defs[s[1][0]].append((bi, "partial", s[2]))
        t = b["t"]
        if t[0] == "call":
            defs[t[3][0]].append((bi, "call" if not t[3][1] else "partialcall", t))
    f._defs = defs
    return defs


def operands_of_rvalue(rv):
    k = rv[0]
    if k == "use":
        return [rv[1]]
    if k == "cast":
        return [rv[2]]
    if k == "bin":
        return [rv[2], rv[3]]
    if k == "un":
        return [rv[2]]
    if k == "agg":
        return list(rv[2])
    if k == "rep":
        return [rv[1]]
    return []


def places_of_rvalue(rv):
    k = rv[0]
    if k in ("ref", "ptr"):
        return [rv[2]]
    if k in ("disc", "len"):
        return [rv[1]]
    out = []
    for o in operands_of_rvalue(rv):
        p = op_place(o)
        if p is not None:
            out.append(p)
    return out


class Slice:
    """Backward slice of a local: the locals, field names, constants, callee names and
    cast kinds that may flow into it (flow-insensitive within the function, bounded)."""

    def __init__(self):
        self.locals = set()
        self.fields = set()
        self.names = set()
        self.consts = []
        self.calls = []  # (bb, callee name)
        self.casts = set()
        self.binops = set()
        self.params = set()


def _fields_of(proj):
    return tuple(e[2] for e in proj if isinstance(e, list) and e[0] == "f")


def _compatible(a, b):
    n = min(len(a), len(b))
    return a[:n] == b[:n]


def local_defs_full(f):
    """local -> list of (bb, kind, payload, written field path)."""
    if getattr(f, "_defs_full", None) is not None:
        return f._defs_full
    defs = defaultdict(list)
    for bi, b in enumerate(f.blocks):
        for s in b["s"]:
            if s[0] == "a":
                fp = _fields_of(s[1][1])
                defs[s[1][0]].append((bi, "rv" if not s[1][1] else "partial", s[2], fp))
        t = b["t"]
        if t[0] == "call":
            fp = _fields_of(t[3][1])
            defs[t[3][0]].append((bi, "call" if not t[3][1] else "partialcall", t, fp))
    f._defs_full = defs
    return defs


def backward_slice(f, local, max_nodes=400, through_calls=True, fields=()):
    """Field-sensitive backward slice: nodes are (local, field path); a read of `x.a` follows
    only stores to `x`, `x.a` or `x.a.*` (and whole-value definitions of x)."""
    defs = local_defs_full(f)
    sl = Slice()
    st = [(local, tuple(fields))]
    seen = set()
    while st and len(seen) < max_nodes:
        l, fp = st.pop()
        if (l, fp) in seen:
            continue
        seen.add((l, fp))
        sl.locals.add(l)
        for x in fp:
            sl.fields.add(x)
        if l in f.names:
            sl.names.add(f.names[l])
        if 1 <= l <= f.nargs:
            sl.params.add(l)

        def push_place(pl, extra=()):
            st.append((pl[0], _fields_of(pl[1]) + tuple(extra)))
            for e in pl[1]:
                if isinstance(e, list) and e[0] == "i":
                    st.append((e[1], ()))

        for bi, kind, p, wfp in defs.get(l, []):
            if kind in ("partial", "partialcall") and not _compatible(wfp, fp):
                continue
            if kind in ("rv", "partial"):
                rv = p
                if rv[0] == "bin":
                    sl.binops.add(rv[1])
                if rv[0] == "cast":
                    sl.casts.add(rv[1])
                if rv[0] == "un":
                    sl.binops.add("un:" + rv[1])
                for o in operands_of_rvalue(rv):
                    if o[0] == "k":
                        sl.consts.append(o[1])
                rest = fp[len(wfp):] if kind == "partial" else fp
                if rv[0] in ("ref", "ptr"):
                    push_place(rv[2], rest)
                elif rv[0] == "use":
                    pl = op_place(rv[1])
                    if pl is not None:
                        push_place(pl, rest)
                else:
                    for pl in places_of_rvalue(rv):
                        push_place(pl)
            else:
                t = p
                fop = t[1]
                nm = None
                if fop[0] == "k" and "fn" in fop[1]:
                    nm = fop[1].get("r", fop[1]["fn"])
                sl.calls.append((bi, nm))
                if through_calls:
                    for a in t[2]:
                        if a[0] == "k":
                            sl.consts.append(a[1])
                        pl = op_place(a)
                        if pl is not None:
                            push_place(pl)
    return sl


def blocks_reaching(f, targets, succ=None):
    """Blocks from which some block in `targets` is reachable."""
    succ = succ or f.successors(True)
    preds = defaultdict(list)
    for i, ss in enumerate(succ):
        for s in ss:
            preds[s].append(i)
    seen = set(targets)
    st = list(targets)
    while st:
        n = st.pop()
        for p in preds[n]:
            if p not in seen:
                seen.add(p)
                st.append(p)
    return seen


def reachable_from(f, start, succ=None, avoid=()):
    succ = succ or f.successors(True)
    seen = set()
    st = [start]
    avoid = set(avoid)
    while st:
        n = st.pop()
        if n in seen or n in avoid:
            continue
        seen.add(n)
        st.extend(succ[n])
    return seen
