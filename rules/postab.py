"""POSTAB — the YAML node-position structures evaluated from MIR: `OpenPositions::build`
(compact advance-index or dense fallback) with len / get (ascending, descending and alternating
access orders, which drive the cached sequential cursor and the random path) /
find_last_open_at_text_pos for every text position / cursor() + advance_one over the whole
sequence / cursor_from(i); and `EndPositions::build` with get in the same access orders —
against the plain list.  Families: duplicate runs of every length 1..70 placed so that they
straddle multiples of 64 in the open index, text positions straddling 64-bit words, gaps that
leave all-zero words, more than 256 unique positions (the select sample rate), non-monotonic
lists (dense fallback), leading / interior zeros for end positions.  A family, not all lists."""
from .harness import RuleResult
from .minimir import Adt, Interp, Panic, Slice, Unsupported
from .stdmodel import tmp_ref

O = "yaml::advance_positions::OpenPositions::"
AP = "yaml::advance_positions::AdvancePositions::"
CU = "yaml::advance_positions::AdvancePositionsCursor::<'_>::"
EP = "yaml::end_positions::EndPositions::"


def opt(r):
    if isinstance(r, Adt) and r.path.endswith("Option"):
        return r.fields[0] if r.vi == 1 else None
    return r


def open_lists(tier):
    out = [[], [0], [5], [0, 0], [3, 3, 3], [0, 9], [0, 0, 9, 9, 9, 9], list(range(70)), [i * 3 for i in range(100)]]
    # duplicate runs straddling 64-multiples of the open index
    for lead in (60, 62, 63, 64, 126, 127):
        for run in (1, 2, 3, 5, 66):
            l = [i * 2 for i in range(lead)]
            base = l[-1] + 2 if l else 0
            l += [base] * (run + 1)
            l += [base + 3 + 2 * i for i in range(10)]
            out.append(l)
    # text positions around word boundaries, sparse gaps
    out.append([0, 63, 63, 64, 64, 64, 65, 127, 128, 128, 1000, 1000, 5000, 5001, 5001])
    out.append([i * 70 for i in range(80)])
    out.append([i // 4 for i in range(400)])
    out.append([i for i in range(300) for _ in range(1 + (i % 3 == 0))])
    out.append([(i * i) // 7 for i in range(330)])
    # non-monotonic (dense fallback)
    out.append([5, 3, 9, 9, 1])
    out.append([i * 2 for i in range(70)] + [7] + [200 + i for i in range(70)])
    if tier == "thorough":
        out.append([i * 5 for i in range(1300)])
        out.append([i // 70 for i in range(5000)])
        for lead in range(56, 72):
            for run in (1, 4, 63, 64, 65, 130):
                l = [i for i in range(lead)] + [lead] * (run + 1) + [lead + 2 + i for i in range(5)]
                out.append(l)
    return out


def end_lists(tier):
    out = [[], [0], [4], [0, 0, 0], [0, 3, 0, 0, 7, 7, 0, 9], [1, 2, 3], [0] * 70 + [5] + [0] * 70 + [9, 9, 12]]
    out.append([0 if i % 3 == 0 else i * 2 for i in range(300)])
    out.append([i * 70 + 1 for i in range(80)])
    out.append([0 if i % 5 else 1 + i // 2 for i in range(400)])
    out.append([0, 63, 64, 0, 64, 65, 128, 0, 0, 128, 1000])
    out.append([9, 0, 3, 0, 12])  # non-monotonic
    out.append([1 + i for i in range(70)] + [2] + [100 + i for i in range(70)])
    if tier == "thorough":
        out.append([0 if i % 7 == 0 else i for i in range(3000)])
        out.append([1 + i // 70 for i in range(5000)])
    return out


def eof_end_lists():
    """(end positions, text length): the last end is the text length itself (a scalar that runs to
    the end of a text without trailing newline), with text lengths at and around multiples of 64."""
    out = []
    for tl in (63, 64, 65, 127, 128, 129, 192, 256, 320):
        out.append(([0, 3, 0, tl // 2, 0, tl], tl))
        out.append(([tl], tl))
        out.append(([0 if i % 3 == 0 else min(tl, 1 + i * 5) for i in range(tl // 5 + 4)] + [tl], tl))
    return out


def orders(n, tier):
    idx = list(range(n + 2))
    alt = []
    for i in range((n + 2 + 1) // 2):
        alt += [idx[i], idx[-1 - i]]
    skip = idx[::3] + idx[1::7]
    rep = [i for i in idx for _ in (0, 1)]
    return [("ascending", idx), ("descending", idx[::-1]), ("alternating", alt[: n + 2]), ("skipping", skip), ("repeating", rep)]


def rule_positions(progs, tier, name="POSTAB"):
    out = []
    for cfg, P in progs.items():
        res = RuleResult(name, cfg)
        out.append(res)
        I = Interp(P, max_steps=100000000, max_depth=80)
        problems = {}
        nq = 0
        flip = 0

        def bad(what, msg):
            problems.setdefault("%s:%s" % (name, what), msg)

        try:
            for vals in open_lists(tier):
                flip ^= 1
                for f in ("util::simd::x86::has_fast_bmi2", "bits::scan::has_avx2"):
                    I.overrides[f] = lambda a, f=flip: f
                I.statics.clear()
                n = len(vals)
                text_len = (max(vals) + 1 + (flip * 37)) if vals else flip * 10
                desc = "%d open positions %s%s, text length %d" % (n, vals[:8], "..." if n > 8 else "", text_len)
                op = I.call(O + "build", [Slice(list(vals), 0, n, 4), text_len])
                r = tmp_ref(op)
                got = I.call(O + "len", [r])
                nq += 1
                if got != n:
                    bad("open:len", "len() = %r for %s" % (got, desc))
                for oname, order in orders(n, tier):
                    for i in order:
                        got = opt(I.call(O + "get", [r, i]))
                        nq += 1
                        exp = vals[i] if i < n else None
                        if got != exp:
                            bad("open:get", "get(%d) = %r in %s access order, the list holds %r (%s)" % (i, got, oname, exp, desc))
                            break
                monotone = all(a <= b for a, b in zip(vals, vals[1:]))
                for p in range(0, text_len + 3):
                    got = opt(I.call(O + "find_last_open_at_text_pos", [r, p]))
                    nq += 1
                    exp = None
                    if monotone or True:
                        hits = [i for i, v in enumerate(vals) if v == p]
                        exp = hits[-1] if hits else None
                    if not monotone and got != exp:
                        # dense fallback documents a binary search over an unsorted list: only sorted inputs are specified
                        continue
                    if got != exp:
                        bad("open:find_last", "find_last_open_at_text_pos(%d) = %r, the last open at that position is %r (%s)" % (p, got, exp, desc))
                        break
                if op.vname == "Compact":
                    ap = tmp_ref(op.fields[0])
                    for start in ([0] if tier != "thorough" else [0]) + [i for i in (1, 2, 63, 64, 65, n // 2, n - 1, n, n + 1) if 0 < i]:
                        cur = I.call(AP + ("cursor_from" if start else "cursor"), [ap] + ([start] if start else []))
                        rc = tmp_ref(cur)
                        i = min(start, n)
                        steps = 0
                        while True:
                            c = opt(I.call(CU + "current", [rc]))
                            ix = I.call(CU + "index", [rc])
                            ex = I.call(CU + "is_exhausted", [rc])
                            nq += 3
                            exp = vals[i] if i < n else None
                            if c != exp or ix != i or bool(ex) != (i >= n):
                                bad("open:cursor", "cursor%s after %d advance_one: current() = %r index() = %r is_exhausted() = %r, expected %r at index %d (%s)" % ("_from(%d)" % start if start else "()", steps, c, ix, bool(ex), exp, i, desc))
                                break
                            if i >= n:
                                break
                            a = opt(I.call(CU + "advance_one", [rc]))
                            nq += 1
                            i += 1
                            steps += 1
                            expa = vals[i] if i < n else None
                            if a != expa:
                                bad("open:cursor", "advance_one() number %d of cursor%s returns %r, expected %r (%s)" % (steps, "_from(%d)" % start if start else "()", a, expa, desc))
                                break
                            if tier != "thorough" and start and steps > 70:
                                break
            for item in [(v, None) for v in end_lists(tier)] + eof_end_lists():
                vals, fixed_len = item
                flip ^= 1
                I.statics.clear()
                n = len(vals)
                text_len = fixed_len if fixed_len is not None else ((max(vals) + 1 + flip * 21) if vals else flip * 10)
                desc = "%d end positions %s%s, text length %d" % (n, vals[:10], "..." if n > 10 else "", text_len)
                ep = I.call(EP + "build", [Slice(list(vals), 0, n, 4), text_len])
                r = tmp_ref(ep)
                compact = ep.vname == "Compact"
                filled = []
                last = None
                for v in vals:
                    if v:
                        last = v
                    filled.append(last)
                for oname, order in orders(n, tier):
                    for i in order:
                        got = opt(I.call(EP + "get", [r, i]))
                        nq += 1
                        if i >= n:
                            exp = None
                        elif vals[i]:
                            exp = vals[i]
                        else:
                            exp = filled[i] if compact else None
                        if got != exp:
                            bad("end:get", "EndPositions::get(%d) = %r in %s access order (%s storage), expected %r (%s)" % (i, got, oname, "compact" if compact else "dense", exp, desc))
                            break
        except Panic as e:
            res.bad("%s:panic" % name, "position structure panics on %s: %s" % (desc, e))
            continue
        except (Unsupported, KeyError, IndexError, AttributeError, TypeError) as e:
            res.bad("%s:evaluate" % name, "cannot evaluate position structure (%s): %r" % (desc, e))
            continue
        for k, m in sorted(problems.items()):
            res.bad(k, m)
        res.cells += nq
        res.engines += 1
        res.ok({"open_lists": len(open_lists(tier)), "end_lists": len(end_lists(tier)), "queries": nq})
    return out
