"""BVTAB — the BitVec structure evaluated from MIR: `with_config` at several select sample
rates, then get / rank1 / rank0 / select1 / select0 / count_ones / count_zeros on a family of
word vectors (boundary patterns in 1-2 words at every length; vectors crossing the 8-word scan
block and the 512-bit rank block; long zero runs; stray bits past `len`; surplus words), for
every query position / rank incl. out-of-range ones, against counting bits one at a time.
Both detection outcomes of the AVX2 block popcount and the PDEP in-word select are exercised.
Bounded-exhaustive, not all inputs."""
from .harness import RuleResult
from .minimir import Adt, Interp, Panic, Slice, Unsupported
from .stdmodel import tmp_ref

M = (1 << 64) - 1
RS = "<bits::bitvec::BitVec as RankSelect>::"
BV = "bits::bitvec::BitVec::"


def opt(r):
    if isinstance(r, Adt) and r.path.endswith("Option"):
        return r.fields[0] if r.vi == 1 else None
    return r


def family(tier):
    fam = []
    pats = [0, M, 1, 1 << 63, 0xAAAAAAAAAAAAAAAA, 0x0123456789ABCDEF]
    for a in pats:
        for ln in (0, 1, 63, 64):
            fam.append(([a], ln))
    for a in pats[:4]:
        for b in pats[:4]:
            for ln in (65, 127, 128):
                fam.append(([a, b], ln))
    fam.append(([], 0))
    # 8-word scan block / 512-bit rank block crossings, long zero runs
    fam.append(([M] * 9, 9 * 64))
    fam.append(([M] * 9, 9 * 64 - 7))
    fam.append(([1] + [0] * 16 + [1 << 63], 18 * 64))
    fam.append(([0] * 8 + [1], 9 * 64))
    fam.append(([0x8000000000000001] * 17, 17 * 64 - 1))
    fam.append(([0] * 20 + [M] + [0] * 20 + [5], 42 * 64))
    fam.append(([0xFFFF0000FFFF0000, 0, 0, M, 1, 0, 0, 0, 0, 0, 0, 0, 0, 0, 0, 0, 0, 2], 1100))
    # surplus words (storage longer than len needs) with stray bits
    fam.append(([M, M, M], 70))
    fam.append(([0xF0F0, M], 10))
    if tier == "thorough":
        fam.append(([0x5555555555555555] * 70, 70 * 64 - 3))
        fam.append(([0] * 64 + [M] * 3 + [0] * 64 + [1], 132 * 64))
    return fam


def rule_bitvec(progs, tier, name="BVTAB"):
    out = []
    for cfg, P in progs.items():
        res = RuleResult(name, cfg)
        out.append(res)
        I = Interp(P, max_steps=40000000, max_depth=60)
        I.features = {"avx512vpopcntdq": False, "avx512f": False, "avx2": True, "bmi2": True, "popcnt": True}
        problems = {}
        nq = 0
        flip = [0]
        rates = [256, 1, 3, 100, 4096] if tier == "thorough" else [256, 3]
        try:
            for words, ln in family(tier):
                bits = []
                for w in words:
                    bits.extend((w >> i) & 1 for i in range(64))
                bits = bits[:ln]
                ones = sum(bits)
                for rate in rates:
                    flip[0] ^= 1
                    I.overrides["util::simd::x86::has_fast_bmi2"] = lambda a, f=flip[0]: f
                    I.overrides["bits::scan::has_avx2"] = lambda a, f=flip[0]: f
                    I.statics.clear()
                    conf = Adt("Config", 0, "Config", [rate])
                    bv = I.call(BV + "with_config", [list(words), ln, conf])
                    r = tmp_ref(bv)
                    desc = "%d words %s len %d rate %d" % (len(words), [hex(w) for w in words[:3]], ln, rate)
                    small = ln <= 200
                    for nm, exp in (("count_ones", ones), ("count_zeros", ln - ones), ("len", ln)):
                        got = I.call(BV + nm, [r])
                        nq += 1
                        if got != exp:
                            problems.setdefault("%s:%s" % (name, nm), "%s() = %r, counting the first len bits gives %d (%s)" % (nm, got, exp, desc))
                    ps = range(0, ln + 3) if small else sorted({p for p in (0, 1, 63, 64, 65, 511, 512, 513, 575, 576, 1023, 1024, ln // 2, ln - 1, ln, ln + 1, ln + 64, ln + 1000) if p >= 0})
                    for p in ps:
                        g1 = I.call(RS + "rank1", [r, p])
                        g0 = I.call(RS + "rank0", [r, p])
                        e1 = sum(bits[: min(p, ln)])
                        e0 = min(p, ln) - e1
                        nq += 2
                        if g1 != e1:
                            problems.setdefault("%s:rank1" % name, "rank1(%d) = %r, counting gives %d (%s)" % (p, g1, e1, desc))
                        if g0 != e0:
                            problems.setdefault("%s:rank0" % name, "rank0(%d) = %r, counting gives %d (%s)" % (p, g0, e0, desc))
                        if p < ln and (small or p % 64 in (0, 63)):
                            gb = I.call(BV + "get", [r, p])
                            nq += 1
                            if bool(gb) != bool(bits[p]):
                                problems.setdefault("%s:get" % name, "get(%d) = %r, bit is %d (%s)" % (p, gb, bits[p], desc))
                    pos1 = [i for i, b in enumerate(bits) if b]
                    pos0 = [i for i, b in enumerate(bits) if not b]
                    ks1 = range(0, ones + 2) if small else sorted({k for k in (0, 1, 2, rate - 1, rate, rate + 1, 255, 256, 257, ones // 2, ones - 1, ones, ones + 1) if k >= 0})
                    ks0 = range(0, ln - ones + 2) if small else sorted({k for k in (0, 1, 63, 64, 511, 512, (ln - ones) // 2, ln - ones - 1, ln - ones, ln - ones + 1) if k >= 0})
                    for k in ks1:
                        g = opt(I.call(RS + "select1", [r, k]))
                        e = pos1[k] if k < len(pos1) else None
                        nq += 1
                        if g != e:
                            problems.setdefault("%s:select1" % name, "select1(%d) = %r, the k-th set bit of the first len bits is %r (%s)" % (k, g, e, desc))
                    for k in ks0:
                        g = opt(I.call(BV + "select0", [r, k]))
                        e = pos0[k] if k < len(pos0) else None
                        nq += 1
                        if g != e:
                            problems.setdefault("%s:select0" % name, "select0(%d) = %r, the k-th clear bit of the first len bits is %r (%s)" % (k, g, e, desc))
        except Panic as e:
            res.bad("%s:panic" % name, "BitVec code panics on %s: %s" % (desc, e))
            continue
        except (Unsupported, KeyError) as e:
            res.bad("%s:evaluate" % name, "cannot evaluate BitVec fragment (%s): %s" % (desc, e))
            continue
        for k, m in sorted(problems.items()):
            res.bad(k, m)
        res.cells += nq
        res.engines += 1
        res.ok({"vectors": len(family(tier)), "sample_rates": rates, "queries": nq})
    return out


def rule_bitvec_tiered(progs, tier, name="BVTAB"):
    """Quick: the cli configuration; thorough: cli, simd and portable-popcount."""
    names = [c for c in progs.keys() if c in (("cli", "simd", "portable") if tier == "thorough" else ("cli",))] or list(progs.keys())[:1]
    sub = progs.subset(names) if hasattr(progs, "subset") else {c: progs[c] for c in names}
    return rule_bitvec(sub, tier, name)
