"""CSVRT (C22) — the `@csv` / `@dsv(d)` writer and the `--input-dsv d` reader evaluated from MIR
and composed: `jq::eval::format_csv` / `format_dsv` on an array of strings gives the line; the
line plus the newline that raw output adds goes through the CLI's `parse_dsv_input` (DSV index,
rows / fields, `strip_quotes_and_decode`); the result must be exactly one row equal to the array.
Family: arrays of 1..20 strings over an alphabet of the delimiter, the quote, CR, LF, space,
letters, non-ASCII and the empty string (every string up to length 2, plus longer mixes), and
every printable ASCII delimiter other than the quote.  A family, not all arrays."""
import itertools

from .harness import RuleResult
from .minimir import Adt, Interp, Panic, Slice, Unsupported
from .stdmodel import StrBuf, tmp_ref

OV = "jq::value::OwnedValue"


def ov_str(s):
    return Adt(OV, 5, "String", [StrBuf(list(s.encode("utf-8")))])


def ov_arr(xs):
    return Adt(OV, 6, "Array", [[ov_str(x) for x in xs]])


def arrays(delim, tier):
    d = chr(delim)
    alpha = [d, '"', "\n", "\r", " ", "a", "é"]
    singles = [""] + alpha + ["".join(p) for p in itertools.product(alpha, repeat=2)]
    out = [[s] for s in singles]
    out += [[a, b] for a in ["", d, '"', "\n", "x"] for b in ["", d, '"', "\n", "y"]]
    out.append(["name", "with %s delim" % d, 'say "hi"', "two\nlines", "", " lead", "trail ", "日本語", '""', '"', "a\r\nb"])
    out.append([""] * 20)
    out.append(["x%d%s" % (i, d * (i % 3)) for i in range(20)])
    out.append(['"' * i for i in range(1, 8)])
    if tier == "thorough":
        out += [["".join(p)] for p in itertools.product(alpha, repeat=3)]
        out += [[a, b, c] for a in ["", d, '"'] for b in ["", "\n", '"' + d] for c in ["", d + '"', "z"]]
    return out


def rule_csv(progs, tier, name="CSVRT"):
    out = []
    for cfg, P in progs.items():
        res = RuleResult(name, cfg)
        out.append(res)
        if not P.has_bin:
            res.bad("%s:anchor" % name, "the CLI crate is not part of this configuration (fail closed)")
            continue
        I = Interp(P, max_steps=50000000, max_depth=120)
        problems = {}
        n = 0
        flip = 0
        delims = [0x2C] + ([c for c in range(0x21, 0x7F) if c not in (0x22, 0x2C)] if tier == "thorough" else [0x3B, 0x7C, 0x09, 0x27, 0x20, 0x5C, 0x23, 0x2D, 0x61])
        try:
            for dl in delims:
                fam = arrays(dl, tier)
                if dl != 0x2C and tier != "thorough":
                    fam = fam[::6] + fam[-4:]
                for xs in fam:
                    flip ^= 1
                    I.features = {"avx2": bool(flip), "bmi2": bool(flip), "sse2": True}
                    for f in ("util::simd::x86::has_fast_bmi2", "bits::scan::has_avx2"):
                        I.overrides[f] = lambda a, f=flip: f
                    I.statics.clear()
                    desc = "array %r with delimiter %r" % (xs[:6], chr(dl))
                    v = ov_arr(xs)
                    if dl == 0x2C and flip:
                        r = I.call("jq::eval::format_csv", [tmp_ref(v), 0], gen={"S": "jq::eval::JqSemantics"})
                    else:
                        ds = chr(dl).encode()
                        r = I.call("jq::eval::format_dsv", [tmp_ref(v), Slice(list(ds), 0, len(ds)), 0], gen={"S": "jq::eval::JqSemantics"})
                    n += 1
                    if not (isinstance(r, Adt) and r.vname == "Ok"):
                        problems.setdefault("%s:writer" % name, "the formatter fails on %s: %r" % (desc, r))
                        continue
                    line = list(r.fields[0].b) + [0x0A]
                    rows = I.call("bin::jq_runner::parse_dsv_input", [Slice(line, 0, len(line)), dl])
                    got = []
                    for row in rows:
                        got.append([bytes(x.fields[0].b).decode("utf-8", "replace") for x in row.fields[0]])
                    if got != [xs]:
                        problems.setdefault("%s:roundtrip" % name, "%s is printed as %r and read back as %r" % (desc, bytes(line[:-1])[:80], got[:3]))
        except Panic as e:
            res.bad("%s:panic" % name, "@csv/@dsv round trip panics on %s: %s" % (desc, e))
            continue
        except (Unsupported, KeyError, IndexError, AttributeError, TypeError) as e:
            res.bad("%s:evaluate" % name, "cannot evaluate the @csv/@dsv round trip (%s): %r" % (desc, e))
            continue
        for k, m in sorted(problems.items()):
            res.bad(k, m)
        res.cells += n
        res.engines += 2
        res.ok({"arrays": n, "delimiters": len(delims)})
    return out
