"""YQDOM (C15 write clause, C26 programs clause) — the yq runner's evaluation core evaluated from MIR.

`yq_runner::evaluate_yaml_direct_filtered(bytes, expr, None, sink, opts)` is what `succinctly yq`
calls for every input that does not take the streaming fast path: index build, per-document
cursor, the generic evaluator under `YqSemantics`, the presentation reconciliation after a write
(`reconcile_presentation`, `enforce_anchor_soundness`), and `output_value` is what prints each result
(the DOM YAML emitter `emit_yaml_value_at_depth` with the quoting deciders, or the JSON printer).

rule_write (C15): documents (named ones with flow / quoted / commented / anchored nodes, and
generated single-document streams) x write programs derived from the document's own tree
(assignment to new and existing paths, update, deletion, merge, append) x indentation settings:
the YAML printed for a result must load back (`YamlIndex::build` + `to_json_document`) to the value
the JSON printer gives for the same program and input.

rule_syntax (C26): generated trees rendered as JSON text (JSON-sourced mark) and as the generated
YAML presentation, crossed with programs that do not inspect presentation: the `-o json` texts
must be the same.
"""
import json

from .harness import RuleResult
from .minimir import Adt, Interp, Panic, Slice, Unsupported
from .stdmodel import StrBuf, tmp_ref
from . import yamlgen
from .yamlload import load, same

NONE = lambda: Adt("std::option::Option", 0, "None", [])  # noqa: E731

NAMED = [
    ("flow-map-in-block", "name: svc\nlimits: {cpu: 1, mem: 2}\n"),
    ("flow-in-seq", "a:\n  - 1\n  - {x: [1, 2], y: z}\nb: [p, q]\n"),
    ("comments-and-quotes", "# head\na: 1 # c1\nb:\n  c: \"q\" # c2\n  d: 'e'\n"),
    ("anchors", "x: &x {p: 1}\ny: *x\nz: [*x]\n"),
    ("block-scalars", "s: |\n  line1\n  line2\nf: >-\n  folded\n  text\nt:\n  u: 1\n"),
    ("seq-root", "- a\n- [b, {c: d}]\n- k: v\n  l: [1]\n"),
    ("flow-root", "{a: [1, 2], b: {c: 3}}\n"),
    ("keys", "\"quoted key\": 1\n? complex\n: {z: 2}\nplain: [x]\n"),
    ("nested-block", "top:\n  mid:\n    leaf: 1\n    list:\n      - p: 1\n        q: 2\n      - r\n"),
    ("empty-containers", "e: {}\nf: []\ng:\n  h: {}\n"),
    ("nested-anchors", "x: &x\n  p: &y 1\n  q: 2\nb: *x\nc: *y\n"),
    ("anchored-seq", "base: &b\n  - &first {n: 1}\n  - two\ncopy: *b\nlast: *first\n"),
]

# writes through an alias: the written copy is printed in full and re-declares the anchors inside it, so a later
# alias of an inner anchor would resolve to the nearer (changed) declaration unless the writer drops the alias
EXTRA_PROGRAMS = {
    "nested-anchors": [".b.p = 9", ".x.p = 5", ".b.q = 9", "del(.x)", ".c = 7"],
    "anchored-seq": [".copy[0].n |= . + 10", ".base[0].n = 3", ".copy[1] = \"2\""],
}

VALUES = ['5', '"0x2A"', '{"a":[1,{"b":null}]}', '["x",{"k":"v: w"}]', '{"deep":{"er":{"est":[[]]}}}', '"- dash"', '" lead"', '{}', '[]', '"multi\\nline"', 'true', '"#c"']

READ_PROGRAMS = [
    ".", "keys", "length", "[.. | scalars]", "to_entries", "[paths]", "map_values(type)?", "tojson", "[.[]?]", "[.. | numbers] | add", "[.. | strings | length]",
    "[.. | type]", "with_entries(.)?", "[leaf_paths | join(\"/\")?]", "tostream", "[.[]? | tostring]", "sort_by(tojson)?", "del(.[0]?)", ". as $x | [$x]", "[.. | select(type == \"boolean\")]",
]


def jpath(path):
    s = ""
    for p in path:
        s += "[%s]" % json.dumps(p, ensure_ascii=True) if isinstance(p, str) else "[%d]" % p
    return "." + s if s else "."


def containers(tree, path=(), depth=0, out=None):
    if out is None:
        out = []
    if isinstance(tree, dict):
        out.append((path, "obj"))
        if depth < 3:
            for k, v in tree.items():
                containers(v, path + (k,), depth + 1, out)
    elif isinstance(tree, list):
        out.append((path, "arr"))
        if depth < 3:
            for i, v in enumerate(tree):
                containers(v, path + (i,), depth + 1, out)
    return out


def write_programs(tree, limit):
    """Write programs over the document's own container paths; deterministic."""
    progs = []
    cs = containers(tree)
    vi = 0
    for path, kind in cs:
        P = jpath(path)
        pre = P if P != "." else ""
        v = VALUES[vi % len(VALUES)]
        v2 = VALUES[(vi + 2) % len(VALUES)]
        vi += 1
        if kind == "obj":
            progs.append('%s.new = %s' % (pre, v))
            progs.append('%s.gpu.count = %s' % (pre, v2))
            progs.append('%s += {"n": %s}' % (P, v))
            progs.append('%s *= {"m": {"n": %s}}' % (P, v2))
            progs.append('%s |= with_entries(.)' % P)
        else:
            progs.append('%s += [%s]' % (P, v))
            progs.append('%s[0] = %s' % (P, v2))
            progs.append('%s |= map(.)' % P)
            progs.append('del(%s[0])' % P)
        if path:
            progs.append('del(%s)' % P)
            progs.append('%s = %s' % (P, v))
    # spread: take programs round-robin so every kind appears within the limit
    if len(progs) > limit:
        step = len(progs) / float(limit)
        progs = [progs[int(i * step)] for i in range(limit)]
    return progs


class Runner:
    def __init__(self, P):
        self.I = Interp(P, max_steps=120000000, max_depth=400)
        self.exprs = {}
        self.cfgs = {}

    def expr(self, prog):
        if prog not in self.exprs:
            pb = prog.encode()
            r = self.I.call("jq::parser::parse_program_with_mode", [Slice(list(pb), 0, len(pb)), Adt("jq::parser::ParserMode", 1, "Yq", [])])
            if not (isinstance(r, Adt) and r.vname == "Ok"):
                self.exprs[prog] = None
            else:
                self.exprs[prog] = r.fields[0].fields[3]
        return self.exprs[prog]

    def evaluate(self, text, prog, need_comments, json_sourced=False):
        """-> (results [(value, comments)], stderr bytes) or raises"""
        I = self.I
        I.statics.clear()
        I.streams = {"stderr": [], "stdout": []}
        e = self.expr(prog)
        if e is None:
            return None, b"parse error"
        js = Slice(list(text), 0, len(text))
        sink = Adt("bin::output::ErrorSink", 0, "ErrorSink", [0, 0, NONE()])
        opts = Adt("bin::yq_runner::DirectEvalOptions", 0, "DirectEvalOptions", [int(need_comments), 0, 0, int(json_sourced)])
        rs = I.call("bin::yq_runner::evaluate_yaml_direct_filtered", [js, tmp_ref(e), NONE(), tmp_ref(sink), opts])
        err = b"".join(I.streams["stderr"])
        if not (isinstance(rs, Adt) and rs.vname == "Ok"):
            return None, err + b"<Err>"
        docs, _n = rs.fields[0]
        return [vc for doc in docs for vc in doc], err

    def config(self, fmt, indent, json_sourced=False):
        """`OutputConfig::from_args` on a YqCommand with only -o / -I set (the flag -> configuration
        mapping, including what -I0 / -I1 mean for each format, is the crate's, not the rule's)."""
        key = (fmt, indent)
        if key not in self.cfgs:
            I = self.I
            fields = []
            for f in I.P.adts["bin::YqCommand"]["variants"][0]["fields"]:
                ty, nm = f["ty"], f["name"]
                if nm == "output_format":
                    fields.append(Adt("bin::OutputFormat", fmt, ["Yaml", "Json"][fmt], []))
                elif nm == "indent":
                    fields.append(indent)
                elif nm == "input_format":
                    fields.append(Adt("bin::InputFormat", 0, I.P.adts["bin::InputFormat"]["variants"][0]["name"], []))
                elif ty == "bool" or ty in ("u8", "usize"):
                    fields.append(0)
                elif ty.startswith("std::option::Option<"):
                    fields.append(NONE())
                elif ty.startswith("std::vec::Vec<"):
                    fields.append([])
                else:
                    raise Unsupported("YqCommand field %s: %s" % (nm, ty))
            cmd = Adt("bin::YqCommand", 0, "YqCommand", fields)
            # colour is a property of the terminal, not of the document: off
            I.overrides["bin::env_config::resolve_color"] = lambda a: 0
            I.overrides["bin::env_config::no_color_from_env"] = lambda a: 0
            I.overrides["<std::io::Stdout as std::io::IsTerminal>::is_terminal"] = lambda a: 0
            I.overrides["std::io::stdout"] = lambda a: Adt("std::io::Stdout", 0, "Stdout", [])
            cfg = I.call("bin::yq_runner::OutputConfig::from_args", [tmp_ref(cmd)])
            if not (isinstance(cfg, Adt) and cfg.path.endswith("OutputConfig")):
                raise Unsupported("OutputConfig::from_args gave %r" % (cfg,))
            self.cfgs[key] = cfg
        cfg = self.cfgs[key]
        c2 = Adt(cfg.path, cfg.vi, cfg.vname, list(cfg.fields))
        names = [f["name"] for f in self.I.P.adts["bin::yq_runner::OutputConfig"]["variants"][0]["fields"]]
        c2.fields[names.index("json_sourced_floats")] = int(json_sourced)
        return c2

    def output(self, v, c, fmt, indent, json_sourced=False):
        I = self.I
        cfg = self.config(fmt, indent, json_sourced)
        out = []
        r = I.call("bin::yq_runner::output_value", [tmp_ref(out), tmp_ref(v), tmp_ref(c), tmp_ref(cfg)], gen={"W": "std::vec::Vec<u8>"})
        if isinstance(r, Adt) and r.vname == "Err":
            return None
        return bytes(out)


def is_container(v):
    return isinstance(v, Adt) and v.vname in ("Array", "Object")


def rule_write(progs, tier, name="YQDOM(write)", n_quick=6, n_thorough=12, per_doc_quick=7, per_doc_thorough=10):
    out = []
    for cfg, P in progs.items():
        res = RuleResult(name, cfg)
        out.append(res)
        R = Runner(P)
        thorough = tier == "thorough"
        want = n_thorough if thorough else n_quick
        per_doc = per_doc_thorough if thorough else per_doc_quick
        indents = (0, 1, 2, 3, 4, 5, 6, 7, 8) if thorough else (2, 4, 0)
        fam, dropped = yamlgen.streams(want * 4, seed0=7000, max_depth=3)
        fam = [("gen-%s" % seed, text, docs[0]) for seed, text, docs in fam if len(docs) == 1 and isinstance(docs[0], (dict, list)) and docs[0]][:want]
        if len(fam) < want * 0.6:
            res.bad("%s:family" % name, "the generator produced only %d of %d single-document collection streams (fail closed)" % (len(fam), want))
            continue
        items = []
        I0 = Interp(P, max_steps=80000000, max_depth=300)
        for nm, text in NAMED:
            kind, val = load(I0, text.encode("utf-8"))
            if kind != "json":
                res.bad("%s:named:%s" % (name, nm), "the named document does not load: %r" % (val,))
                continue
            items.append((nm, text, json.loads(val)))
        items += fam
        npairs = 0
        nchecked = 0
        nerr = 0
        crashed = False
        for nm, text, tree in items:
            data = text.encode("utf-8")
            for prog in EXTRA_PROGRAMS.get(nm, []) + write_programs(tree, per_doc if not nm.startswith("gen-") else max(3, per_doc // 2)):
                key = "%s:%s:%s" % (name, nm, prog)
                npairs += 1
                try:
                    ry, erry = R.evaluate(data, prog, True)
                    rj, errj = R.evaluate(data, prog, False)
                    if ry is None or rj is None or erry or errj:
                        # parse error / evaluation error: nothing printed to read back; both runs must agree on that
                        if (ry is None) != (rj is None) or bool(erry) != bool(errj):
                            res.bad(key, "on %r the run with comments and the run without end differently: %r vs %r" % (text[:80], erry[:100], errj[:100]))
                        nerr += 1
                        continue
                    if len(ry) != len(rj):
                        res.bad(key, "on %r: %d results with comments, %d without" % (text[:80], len(ry), len(rj)))
                        continue
                    for (vy, cy), (vj, cj) in zip(ry, rj):
                        if not is_container(vy):
                            continue  # the root-scalar shortcut drops styling by design (known, C15 F26)
                        jt = R.output(vj, cj, 1, 0)
                        want_v = json.loads(jt.decode("utf-8"))
                        for ind in indents:
                            yt = R.output(vy, cy, 0, ind)
                            if yt is None:
                                res.bad(key, "output_value fails at indent %d" % ind)
                                break
                            kind, val = load(I0, yt)
                            nchecked += 1
                            if kind != "json":
                                res.bad(key, "`yq -I%d '%s'` on %r prints %r, which the loader rejects (%r); -o json prints %s" % (ind, prog, text[:120], yt[:200].decode("utf-8", "replace"), val, jt[:160].decode("utf-8", "replace")))
                                break
                            got = json.loads(val)
                            if not same(got, want_v):
                                res.bad(key, "`yq -I%d '%s'` on %r prints %r, which loads back as %s; -o json prints %s" % (ind, prog, text[:120], yt[:200].decode("utf-8", "replace"), json.dumps(got)[:200], jt[:200].decode("utf-8", "replace").strip()))
                                break
                except Panic as e:
                    res.bad(key, "`yq '%s'` on %r panics: %s" % (prog, text[:80], str(e)[:200]))
                except (Unsupported, KeyError, IndexError, AttributeError, TypeError, ValueError) as e:
                    res.bad("%s:evaluate" % name, "cannot evaluate `%s` on %r: %r" % (prog, text[:80], e))
                    crashed = True
                    break
            if crashed:
                break
        if not crashed and nerr > npairs * 0.3:
            res.bad("%s:family" % name, "%d of %d write programs end in an error: the family does not exercise the emitter (fail closed)" % (nerr, npairs))
        res.cells += nchecked
        res.engines += 1
        res.ok({"documents": len(items), "program_document_pairs": npairs, "pairs_ending_in_error": nerr, "read_backs_compared": nchecked, "indents": list(indents)})
    return out


def rule_syntax(progs, tier, name="YQDOM(syntax)", n_quick=8, n_thorough=20):
    from .yamlload import EDGE_INT_TREES

    out = []
    for cfg, P in progs.items():
        res = RuleResult(name, cfg)
        out.append(res)
        R = Runner(P)
        thorough = tier == "thorough"
        want = n_thorough if thorough else n_quick
        fam, dropped = yamlgen.streams(want * 3, seed0=9500, max_depth=3)
        fam = [("gen-%s" % seed, text, docs[0]) for seed, text, docs in fam if len(docs) == 1 and "&" not in text and "*" not in text and "!!" not in text][:want]
        fam = [(nm, json.dumps(tr) + "\n", tr) for nm, tr in EDGE_INT_TREES] + fam
        if len(fam) < want * 0.6:
            res.bad("%s:family" % name, "the generator produced only %d of %d streams (fail closed)" % (len(fam), want))
            continue
        plist = READ_PROGRAMS if thorough else READ_PROGRAMS[:12]
        ncmp = 0
        crashed = False
        for nm, ytext, tree in fam:
            jtext = json.dumps(tree, ensure_ascii=False, separators=(",", ":"))
            for prog in plist:
                key = "%s:%s:%s" % (name, nm, prog)
                try:
                    sides = []
                    for text, js in ((jtext, True), (ytext, False)):
                        rs, err = R.evaluate(text.encode("utf-8"), prog, False, json_sourced=js)
                        outs = None if rs is None else [R.output(v, c, 1, 0, json_sourced=js) for v, c in rs]
                        sides.append((outs, bool(err) or rs is None))
                    ncmp += 1
                    (oj, ej), (oy, ey) = sides
                    if ej != ey or oj != oy:
                        res.bad(key, "`yq -o json '%s'`: the tree given as JSON %r prints %r%s, given as YAML %r prints %r%s" % (
                            prog, jtext[:100], b" ".join(oj or [])[:160], " (error)" if ej else "", ytext[:100], b" ".join(oy or [])[:160], " (error)" if ey else ""))
                except Panic as e:
                    res.bad(key, "`yq '%s'` panics on %r: %s" % (prog, jtext[:80], str(e)[:200]))
                except (Unsupported, KeyError, IndexError, AttributeError, TypeError, ValueError) as e:
                    res.bad("%s:evaluate" % name, "cannot evaluate `%s` on %r: %r" % (prog, jtext[:80], e))
                    crashed = True
                    break
            if crashed:
                break
        res.cells += ncmp
        res.engines += 1
        res.ok({"trees": len(fam), "programs": len(plist), "pairs_compared": ncmp})
    return out
