"""UTF8TAB — UTF-8 validators tabulated over a boundary-complete finite family of byte windows.

Engines (each evaluated from its own MIR by the bytedom evaluator):
  scalar     text::utf8::validate_utf8_scalar
  broadword  text::utf8::broadword::validate_utf8_broadword
  avx2       text::utf8::simd_x86::validate_utf8_avx2 (raw accept kernel)
  simd       text::utf8::simd_x86::validate_utf8_simd (dispatcher: accept kernel or scalar)
  json       json::validate::validate on `"` + window + `"`
Specification: Unicode Table 3-7 (well-formed byte sequences), via Python's strict UTF-8
decoder, which implements exactly that table; the expected error offset is the length of the
longest valid prefix.

Family: sequences lead x second x tail over boundary sets of Table 3-7 (every row boundary and
its neighbours), truncated and complete, embedded at offsets that put the sequence across the
8-byte word boundary (broadword) and across / at the end of the 32-byte block (AVX2), followed
by nothing, by a few ASCII bytes, or by a full ASCII block.  Boundary-complete, not exhaustive:
it decides the class tables and the block/word carry, not every byte string.
"""
from .harness import RuleResult
from .minimir import Adt, Interp, Panic, Slice, Unsupported

LEADS_Q = [0x00, 0x7F, 0x80, 0xBF, 0xC0, 0xC1, 0xC2, 0xDF, 0xE0, 0xE1, 0xEC, 0xED, 0xEE, 0xEF, 0xF0, 0xF1, 0xF3, 0xF4, 0xF5, 0xF7, 0xF8, 0xFF]
SECONDS = [0x00, 0x7F, 0x80, 0x8F, 0x90, 0x9F, 0xA0, 0xBF, 0xC0, 0xFF]
TAILS = [0x7F, 0x80, 0xBF, 0xC0]


def windows(tier):
    leads = range(256) if tier == "thorough" else LEADS_Q
    out = []
    for l in leads:
        out.append((l,))
        for s in SECONDS:
            out.append((l, s))
            if l >= 0xE0:
                for t in (TAILS if tier == "thorough" else [0x80, 0xBF, 0x7F]):
                    out.append((l, s, t))
                    if l >= 0xF0:
                        for u in (TAILS if tier == "thorough" else [0x80, 0xBF, 0xC0]):
                            out.append((l, s, t, u))
    return out


def spec(data):
    """(ok, valid_prefix_len)"""
    try:
        bytes(data).decode("utf-8")
        return True, len(data)
    except UnicodeDecodeError as e:
        return False, e.start


def line_col(data, off):
    """1-based line and byte column of offset; lines are LF-terminated (the text::utf8 module's
    documented convention: line = 1 + number of LF bytes before the offset)."""
    line, col, i = 1, 1, 0
    while i < off:
        if data[i] == 0x0A:
            line += 1
            col = 1
        else:
            col += 1
        i += 1
    return line, col


class Engines:
    def __init__(self, P):
        self.P = P
        self.I = Interp(P, max_steps=400000)
        self.I.features = {"avx2": True}

    def S(self, data):
        return Slice(list(data), 0, len(data))

    def utf8_result(self, fn, data):
        r = self.I.call(fn, [self.S(data)])
        if isinstance(r, Adt) and r.vname == "Ok":
            return ("ok",)
        e = r.fields[0]
        a = self.P.adts.get(e.path)
        names = [f["name"] for f in a["variants"][0]["fields"]]
        d = dict(zip(names, e.fields))
        return ("err", d["offset"], d["line"], d["column"], d["kind"].vname)

    def avx2(self, data):
        return bool(self.I.call("text::utf8::simd_x86::validate_utf8_avx2", [self.S(data)]))

    def json(self, data):
        r = self.I.call("json::validate::validate", [self.S(data)])
        if isinstance(r, Adt) and r.vname == "Ok":
            return ("ok",)
        e = r.fields[0]
        a = self.P.adts.get(e.path)
        names = [f["name"] for f in a["variants"][0]["fields"]]
        d = dict(zip(names, e.fields))
        pos = d["position"]
        pa = self.P.adts.get(pos.path)
        pn = [f["name"] for f in pa["variants"][0]["fields"]]
        pd = dict(zip(pn, pos.fields))
        return ("err", pd["offset"], pd["line"], pd["column"], d["kind"].vname)


def rule_utf8(progs, tier, engines=("scalar", "broadword", "avx2", "simd"), name="UTF8TAB"):
    out = []
    for cfg, P in progs.items():
        res = RuleResult(name, cfg)
        out.append(res)
        E = Engines(P)
        wins = windows(tier)
        # contexts: (prefix length, suffix length)
        ctx_small = [(0, 0), (6, 9)]
        ctx_block = [(30, 40), (31, 0), (31, 33)]
        if tier == "thorough":
            ctx_small += [(0, 3), (5, 0), (7, 9), (1, 1), (3, 9), (8, 9)]
            ctx_block += [(29, 0), (31, 70), (32, 33), (28, 40), (61, 40), (63, 33)]
        problems = {}
        counts = {e: 0 for e in engines}

        def note(key, msg):
            if key not in problems:
                problems[key] = msg

        try:
            for w in wins:
                for (pl, sl) in ctx_small + ctx_block:
                    block_ctx = (pl, sl) in ctx_block
                    # the word-based and scalar engines see every context in thorough tier,
                    # block contexts only for a thinner window set in quick tier
                    data = [0x61] * pl + list(w) + [0x7A] * sl
                    ok, vp = spec(data)
                    if "avx2" in engines and (block_ctx or tier == "thorough" or len(w) <= 2):
                        got = E.avx2(data)
                        counts["avx2"] += 1
                        if got != ok:
                            note("%s:avx2:accept" % name, "AVX2 accept kernel returns %s for %s (prefix %d ASCII, suffix %d ASCII); Table 3-7 says %s" % (got, bytes(w).hex(), pl, sl, "well-formed" if ok else "ill-formed"))
                    if block_ctx and tier != "thorough" and len(w) > 2 and w[0] not in (0xE0, 0xED, 0xF0, 0xF4, 0xC2):
                        continue
                    sib = {}
                    for eng, fn in (("scalar", "text::utf8::validate_utf8_scalar"), ("broadword", "text::utf8::broadword::validate_utf8_broadword"), ("simd", "text::utf8::simd_x86::validate_utf8_simd")):
                        if eng not in engines:
                            continue
                        if eng == "simd" and not block_ctx and tier != "thorough":
                            continue
                        r = E.utf8_result(fn, data)
                        counts[eng] += 1
                        sib[eng] = r
                        if (r[0] == "ok") != ok:
                            note("%s:%s:accept" % (name, eng), "%s %s %s (prefix %d, suffix %d); Table 3-7 says %s" % (eng, "accepts" if r[0] == "ok" else "rejects", bytes(w).hex(), pl, sl, "well-formed" if ok else "ill-formed"))
                        elif r[0] == "err":
                            off, line, col, kind = r[1:]
                            if off != vp:
                                note("%s:%s:offset:%s" % (name, eng, kind), "%s reports offset %d for %s (prefix %d, suffix %d), the longest valid prefix is %d bytes (kind %s)" % (eng, off, bytes(w).hex(), pl, sl, vp, kind))
                            el, ec = line_col(data, off)
                            if (line, col) != (el, ec):
                                note("%s:%s:linecol" % (name, eng), "%s reports line %d column %d for offset %d, a naive scan gives %d:%d" % (eng, line, col, off, el, ec))
                    vals = set(sib.values())
                    if len(vals) > 1:
                        note("%s:siblings" % name, "engines disagree on %s (prefix %d, suffix %d): %s" % (bytes(w).hex(), pl, sl, sib))
        except (Unsupported, Panic, KeyError) as e:
            res.bad("%s:evaluate" % name, "cannot evaluate a validator fragment: %s" % e)
            continue
        # line/column derivation with real line breaks before the error
        try:
            for brk in ([0x0A], [0x0D], [0x0D, 0x0A], [0x0A, 0x0D], [0x0D, 0x0D, 0x0A]):
                data = [0x61, 0x62] + brk + [0x63] + brk + [0x64, 0x80, 0x65]
                for eng, fn in (("scalar", "text::utf8::validate_utf8_scalar"), ("broadword", "text::utf8::broadword::validate_utf8_broadword"), ("simd", "text::utf8::simd_x86::validate_utf8_simd")):
                    if eng not in engines:
                        continue
                    r = E.utf8_result(fn, data)
                    counts[eng] += 1
                    ok, vp = spec(data)
                    if r[0] != "err":
                        note("%s:%s:accept" % (name, eng), "%s accepts %s" % (eng, bytes(data).hex()))
                        continue
                    el, ec = line_col(data, r[1])
                    if (r[2], r[3]) != (el, ec):
                        note("%s:%s:linecol" % (name, eng), "%s reports line %d column %d for offset %d of %s, a naive scan gives %d:%d" % (eng, r[2], r[3], r[1], bytes(data).hex(), el, ec))
        except (Unsupported, Panic, KeyError) as e:
            res.bad("%s:evaluate" % name, "cannot evaluate line/column fragment: %s" % e)
            continue
        for k, m in sorted(problems.items()):
            res.bad(k, m)
        for e, n in counts.items():
            res.cells += n
            res.engines += 1
            res.ok({"engine": e, "windows_evaluated": n, "distinct_windows": len(wins)})
    return out


def rule_json_utf8(progs, tier, name="UTF8TAB(json)"):
    """json::validate on `"`+window+`"`: acceptance must follow Table 3-7 (the window bytes are
    >= 0x80 or harmless ASCII), and the reported offset must not exceed the first ill-formed byte."""
    out = []
    for cfg, P in progs.items():
        res = RuleResult(name, cfg)
        out.append(res)
        E = Engines(P)
        problems = {}
        n = 0
        try:
            for w in windows(tier):
                if any(b < 0x20 or b in (0x22, 0x5C) for b in w):
                    continue
                for (pl, sl) in ((0, 0), (3, 2)):
                    data = [0x22] + [0x61] * pl + list(w) + [0x7A] * sl + [0x22]
                    ok, vp = spec(data)
                    r = E.json(data)
                    n += 1
                    if (r[0] == "ok") != ok:
                        problems.setdefault("%s:accept" % name, "json::validate %s the string body %s; Table 3-7 says %s" % ("accepts" if r[0] == "ok" else "rejects", bytes(w).hex(), "well-formed" if ok else "ill-formed"))
                    elif r[0] == "err":
                        if r[4] != "InvalidUtf8":
                            problems.setdefault("%s:kind" % name, "json::validate reports %s for ill-formed UTF-8 %s" % (r[4], bytes(w).hex()))
                        # longest prefix extendable to a valid document ends before the first ill-formed byte's sequence end
                        if r[1] > vp + 3:
                            problems.setdefault("%s:offset" % name, "json::validate reports offset %d for %s, beyond the ill-formed sequence starting at %d" % (r[1], bytes(data).hex(), vp))
                        el, ec = line_col(data, r[1])
                        if (r[2], r[3]) != (el, ec):
                            problems.setdefault("%s:linecol" % name, "json::validate reports %d:%d for offset %d, naive scan gives %d:%d" % (r[2], r[3], r[1], el, ec))
        except (Unsupported, Panic, KeyError) as e:
            res.bad("%s:evaluate" % name, "cannot evaluate json::validate fragment: %s" % e)
            continue
        for k, m in sorted(problems.items()):
            res.bad(k, m)
        res.cells += n
        res.engines += 1
        res.ok({"engine": "json::validate", "windows_evaluated": n})
    return out
