"""YAMLVAL — the strict YAML validator (`yaml::validate::validate`) evaluated from MIR on
(a) a generated family of well-formed documents (every presentation kind of the property's
space: block / flow collections, plain / single / double quoted / literal / folded scalars,
comments, blank lines, LF / CRLF / CR breaks, anchors with aliases, document markers, several
documents per stream) — each must be accepted; and (b) truncations and single-byte
substitutions of those documents — the validator must terminate within the step budget, never
panic, and every error must carry the line/column of its offset (LF, CR and CRLF each one break)."""
from .harness import RuleResult
from .minimir import Adt, Interp, Panic, Slice, Unsupported

BASE = [
    "a: 1\n",
    "a: 1\nb: two\nc: 3.5\n",
    "key: value\nother: 'single quoted'\nthird: \"double \\\"quoted\\\" \\n esc\"\n",
    "- 1\n- 2\n- three\n",
    "- a: 1\n  b: 2\n- c: 3\n",
    "map:\n  nested:\n    deep: 1\n  sib: 2\ntop: 3\n",
    "seq:\n  - 1\n  - 2\nafter: x\n",
    "seq:\n- 1\n- 2\nafter: x\n",
    "flow: [1, 2, three]\nfm: {a: 1, b: [x, y], c: {d: e}}\n",
    "[1, [2, [3, [4]]], {a: b}]\n",
    "{a: 1, b: 2}\n",
    "lit: |\n  line one\n  line two\nnext: 1\n",
    "fold: >\n  folded text\n  continues\n\n  para\nnext: 1\n",
    "keep: |+\n  text\n\nstrip: >-\n  text\nend: 1\n",
    "ind: |2\n    two extra\n  base\nend: 1\n",
    "# leading comment\na: 1 # trailing comment\n\n# between\nb: 2\n",
    "a:\n  # comment inside\n  b: 1\n\n  c: 2\n",
    "anchors:\n  base: &b {x: 1}\n  use: *b\n  list: &l [1, 2]\n  again: *l\n",
    "- &a first\n- *a\n- &m\n  k: v\n- *m\n",
    "---\na: 1\n...\n---\nb: 2\n",
    "--- \"scalar doc\"\n--- 'another'\n--- plain\n",
    "%YAML 1.2\n---\na: 1\n",
    "? complex key\n: complex value\n? [flow, key]\n: v\n",
    "empty:\nnull_tilde: ~\nbool: true\nnum: -12\nfloat: 1e3\nstr: \"\"\nsq: ''\n",
    "url: http://example.com:8080/path\ntime: 12:30:45\nhash: a#b\ncolon: a:b\n",
    "plain multi\n  line scalar\n  continues\n",
    "key: plain multi\n  line value\nnext: 1\n",
    "dq: \"multi\n  line double\"\nsq: 'multi\n  line single'\nend: 1\n",
    "- - nested seq\n  - second\n- - x\n",
    "- key: |\n    block in seq map\n  other: 1\n",
    "a: !!str 123\nb: !custom {x: 1}\nc: !!seq [1]\n",
    "\"quoted key\": 1\n'single key': 2\n? |\n  block key\n: v\n",
    "a: [\n  1,\n  2\n]\nb: {\n  x: 1\n}\n",
    "unicode: \"é \\u00e9 \\x41 \\t\"\nraw: é日本\n",
    "y: a - b\nz: -1\nw: a-b\n",
    "\n\n\na: 1\n\n\n",
    "a: 1",
    "",
    "# only a comment\n",
    "---\n...\n",
]


# plain scalars whose content carries YAML indicator characters after a space (the property's
# space draws strings "to include YAML indicators"); name -> document
PLAIN = {
    "plain-dquote-inside": 'a: say "hi" there\n',
    "plain-squote-inside": "a: it's a 'test' here\n",
    "plain-lone-dquote": '- x "y\n',
    "plain-lone-squote": "- x 'y\n",
    "plain-gt-inside": "a: x > y\n",
    "plain-pipe-inside": "a: b | c\n",
    "plain-brackets-inside": "a: see [1] for\n",
    "plain-braces-inside": "a: x {y} z\n",
    "plain-open-bracket-inside": "a: x [y\n",
    "plain-amp-star-inside": "a: x &y *z\n",
    "plain-amp-inside": "a: x &y z\n",
    "plain-star-inside": "a: x *y z\n",
    "plain-bang-inside": "a: x ! y\nb: x !y z\n",
    "plain-misc-indicators": "a: x % y\nb: x @ y\nc: x ? y\nd: x , y\ne: x ] y\nf: x }y\n",
    "plain-continuation-dquote": 'a: one\n  "two" x\n',
    "plain-continuation-bracket": "a: one\n  [two\n",
    "plain-continuation-pipe": "a: one\n  | two\n",
    "plain-continuation-dash": "a: one\n  - two\n",
    "plain-continuation-star-after-deeper-line": "a: one\n    two\n  *three\n",
    "tagged-quoted": 'a: !!str "q"\nb: !t [1]\nc: !t\n  d: 1\n',
    "tagged-key-in-seq": "- !t a: b\n- !!str 'k': v\n",
    "anchored-key-deeper-child": "top:\n  &a k1:\n      deep: 1\n  k2: 2\n",
    "compact-seq-in-seq-with-map": "- - k: v\n    j: w\n  - z\n",
    "seq-under-key-same-indent": "- a: 1\n  b:\n  - x\n  - y\n- c\n",
    "explicit-key-compact-seq": "? a\n: - b\n  - c\n",
    "compact-map-first-key-nested": "- a:\n    x: 1\n  b: 2\n",
    "block-scalars-min-indent": "a: |\n b\nc: >-\n d\n",
    "block-scalar-keep-structural-body": "notes: |+\n  todo: fix: later\n\nafter: 1\n",
    "block-scalar-headers-structural-bodies": "a: |+\n  k: v: w\n  \"unclosed\nb: >+\n  [1, 2\n  - x\n  y\nc: |2+\n    a: b: c\nd: |+2\n    'q\ne: |-\n  k: v: w\nf: >-\n  {a\ng: |2-\n    - x\n   - y\nh: >2\n    a: b: c\nend: 1\n".replace("g: |2-\n    - x\n   - y\n", "g: |2-\n    - x\n    y\n"),
    "block-scalar-in-seq-keep": "- |+\n  a: b: c\n\n- >+\n  \"q\n- end\n",
    "empty-items": "- \n- a\n-\n  b\n- - - c\n",
}


def long_documents(limit):
    """Documents that repeat one construct more often than the validator's nesting limit: any
    per-stream counter that is not restored (depth, frames, anchors) shows up as a rejection."""
    n = limit + 2
    yield "long-flow-seq-items", "".join("- [%d, x]\n" % i for i in range(n))
    yield "long-flow-map-values", "".join("k%d: {a: %d}\n" % (i, i) for i in range(n))
    yield "long-empty-flow", "".join("k%d: []\n" % i for i in range(n)) + "".join("m%d: {}\n" % i for i in range(n))
    yield "long-flow-documents", "".join("--- [%d]\n" % i for i in range(n))
    yield "long-nested-block-siblings", "".join("k%d:\n  a:\n    - b: %d\n" % (i, i) for i in range(n))
    yield "long-anchors-aliases", "".join("- &a%d v%d\n- *a%d\n" % (i, i, i) for i in range(n))
    yield "long-quoted", "".join("- \"q %d\"\n- 'r %d'\n" % (i, i) for i in range(n))
    yield "long-block-scalars", "".join("k%d: |\n  text %d\n" % (i, i) for i in range(n))
    yield "long-flow-then-nest", "".join("- [%d]\n" % i for i in range(limit // 2)) + "- " + "[" * (limit - 8) + "]" * (limit - 8) + "\n"


def variants(doc):
    yield doc
    if "\n" in doc:
        yield doc.replace("\n", "\r\n")
        yield doc.replace("\n", "\r")
        yield "\ufeff" + doc if False else doc + "# trailing comment\n"


def line_col(data, off):
    line, col, i = 1, 1, 0
    n = len(data)
    while i < off and i < n:
        b = data[i]
        if b == 0x0D and i + 1 < n and data[i + 1] == 0x0A:
            if i + 1 < off:
                i += 2
                line += 1
                col = 1
                continue
            # offset points inside the CRLF: the CR is on the old line
            col += 1
            i += 1
            continue
        if b in (0x0A, 0x0D):
            line += 1
            col = 1
        else:
            col += 1
        i += 1
    return line, col


def run(I, P, data):
    # alternate the SIMD dispatch level of the kernels the validator shares with the loader
    run.n = getattr(run, "n", 0) + 1
    flag = run.n % 2
    I.overrides["yaml::simd::x86::avx2_enabled"] = lambda args: flag
    I.overrides["util::simd::escape::avx2_enabled"] = lambda args: flag
    r = I.call("yaml::validate::validate", [Slice(list(data), 0, len(data))])
    if isinstance(r, Adt) and r.vname == "Ok":
        return ("ok",)
    e = r.fields[0]
    a = P.adts.get(e.path)
    d = dict(zip([f["name"] for f in a["variants"][0]["fields"]], e.fields))
    pos = d["position"]
    pd = dict(zip([f["name"] for f in P.adts[pos.path]["variants"][0]["fields"]], pos.fields))
    return ("err", pd["offset"], pd["line"], pd["column"], d["kind"].vname)


def rule_yaml_validator(progs, tier, name="YAMLVAL"):
    out = []
    for cfg, P in progs.items():
        res = RuleResult(name, cfg)
        out.append(res)
        I = Interp(P, max_steps=3000000, max_depth=200)
        n_ok = 0
        import hashlib

        named = [("base-" + hashlib.sha1(d.encode()).hexdigest()[:8], d) for d in BASE] + sorted(PLAIN.items())
        lim = P.consts.get("yaml::validate::MAX_NESTING_DEPTH")
        if lim is None or "v" not in lim:
            res.bad("%s:anchor" % name, "constant yaml::validate::MAX_NESTING_DEPTH not found (fail closed)")
            continue
        named += list(long_documents(lim["v"]))
        # the generated presentation space (same family as C14's YAMLLOAD), LF and CRLF
        from . import yamlgen

        fam, dropped = yamlgen.streams(1500 if tier == "thorough" else 150)
        named += [("stream-%d" % seed, text) for seed, text, _docs in fam]
        rejected = {}
        try:
            for dname, d in named:
                for doc in (variants(d) if not dname.startswith(("long-", "stream-")) else ([d] if dname.startswith("long-") else [d, d.replace("\n", "\r\n")])):
                    data = doc.encode("utf-8")
                    r = run(I, P, data)
                    n_ok += 1
                    if r[0] != "ok" and dname not in rejected:
                        rejected[dname] = (doc, r)
        except Panic as e:
            res.bad("%s:panic" % name, "validator panics on a well-formed document %r: %s" % (doc[:60], e))
            continue
        except (Unsupported, KeyError) as e:
            res.bad("%s:evaluate" % name, "cannot evaluate yaml::validate::validate on %r: %s" % (doc[:60], e))
            continue
        res.cells += n_ok
        res.engines += 1
        for dname, (doc, r) in sorted(rejected.items()):
            res.bad("%s:rejects:%s" % (name, dname), "validator rejects the well-formed document %r with %s at offset %d" % (doc[:80], r[4], r[1]))
        res.ok({"well_formed_documents_accepted": n_ok - len(rejected), "documents": len(named), "nesting_limit": lim["v"]})
        # mutations: termination, no panic, positioned errors
        bad = None
        n_mut = 0
        n_err = 0
        subs = [0x09, 0x3A, 0x5B, 0x5D, 0x7B, 0x7D, 0x22, 0x27, 0x26, 0x2A, 0x25, 0x5C, 0x2D, 0x23, 0x0A, 0x0D, 0x00, 0xFF]
        base_for_mut = BASE if tier == "thorough" else BASE[::3]
        try:
            for d in base_for_mut:
                for form in (d, d.replace("\n", "\r\n")):
                    data = list(form.encode("utf-8"))
                    cases = [data[:k] for k in range(0, len(data), 1 if tier == "thorough" else 3)]
                    step = 1 if tier == "thorough" else 4
                    for p in range(0, len(data), step):
                        for sb in (subs if tier == "thorough" else subs[:: 3]):
                            m = list(data)
                            m[p] = sb
                            cases.append(m)
                    for m in cases:
                        r = run(I, P, m)
                        n_mut += 1
                        if r[0] == "err":
                            n_err += 1
                            el, ec = line_col(m, r[1])
                            if (r[2], r[3]) != (el, ec) and bad is None:
                                bad = (bytes(m), r, (el, ec))
                            if r[1] > len(m) and bad is None:
                                bad = (bytes(m), r, "offset beyond the input")
        except Panic as e:
            res.bad("%s:panic" % name, "validator panics on input %r: %s" % (bytes(m)[:80], e))
            continue
        except Unsupported as e:
            if "step budget" in str(e):
                res.bad("%s:termination" % name, "validator does not terminate within the step budget on %r" % (bytes(m)[:80],))
            else:
                res.bad("%s:evaluate" % name, "cannot evaluate the validator on %r: %s" % (bytes(m)[:60], e))
            continue
        res.cells += n_mut
        if bad:
            res.bad("%s:position" % name, "error for input %r reports offset %d line %d column %d, the offset's line/column are %s" % (bad[0][:80], bad[1][1], bad[1][2], bad[1][3], bad[2]))
        else:
            res.ok({"mutated_inputs": n_mut, "errors_with_consistent_position": n_err})
    return out
