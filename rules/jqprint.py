"""JQPRINT (C11) — the identity fast path of `succinctly jq` evaluated from MIR: `JsonIndex::build`,
then the CLI's lazy cursor printer `jq_runner::print_json` with the jq-compatible literal
formatter, under compact / indent 1..7 / tab / ascii-output configurations; the printed text is
read with Python's json module and must equal the input's value with duplicate keys collapsed as
jq does (first position, last value; nested objects too), numbers equal as doubles, strings
identical; with ascii-output the text must be pure ASCII.  Family: C06's document family (every
value kind, escapes incl. surrogate pairs, number shapes, white space, nesting), plus every object
of up to 5 fields over the keys {a, b, c} (every duplicate pattern) at top level and nested, keys
that are equal only after unescaping, and a 300-field object with one late duplicate.  Sort-keys
and raw-string output go through the owned-value printer (indexmap), which is not evaluated."""
import itertools
import json

from .harness import RuleResult
from .minimir import Adt, Interp, Panic, Slice, Unsupported
from .stdmodel import StrBuf, tmp_ref
from . import jsonnav


def collapse(pairs):
    pos = {}
    out = []
    for k, v in pairs:
        if k in pos:
            out[pos[k]] = (k, v)
        else:
            pos[k] = len(out)
            out.append((k, v))
    return ("obj", out)


def canon(x):
    if isinstance(x, tuple) and x and x[0] == "obj":
        return ("obj", [(k, canon(v)) for k, v in x[1]])
    if isinstance(x, list):
        return [canon(v) for v in x]
    if isinstance(x, bool) or x is None or isinstance(x, str):
        return x
    return float(x)


def read(text):
    return canon(json.loads(text, object_pairs_hook=collapse))


def read_plain(text):
    return canon(json.loads(text, object_pairs_hook=lambda ps: ("obj", list(ps))))


def dup_documents(tier):
    out = []
    keys = "abc"
    for n in range(0, 6 if tier == "thorough" else 5):
        for ks in itertools.product(keys, repeat=n):
            out.append("{" + ",".join('"%s":%d' % (k, i) for i, k in enumerate(ks)) + "}")
    out.append('{"a":1,"a":2,"b":3,"c":4,"b":5}')
    out.append('[{"a":1,"a":2,"b":3,"b":4},{"x":{"k":1,"j":2,"k":3,"j":4},"x":{"y":[{"p":1,"q":2,"p":3}]}}]')
    out.append('{"a\\/b":1,"a/b":2,"c":3,"\\u0063":4}')
    out.append('{"a\\q":1,"b":2,"b":3}'.replace("\\q", "\\u0071"))
    out.append("{" + ",".join('"k%d":%d' % (i, i) for i in range(300)) + ',"k7":-1}')
    # wide objects (> 16 fields) whose repeated key shares length, first and last byte with other keys
    out.append("{" + ",".join('"k%d":%d' % (i, i) for i in range(40)) + ',"k10":999}')
    out.append("{" + ",".join('"k%d":%d' % (i, i) for i in range(40)) + ',"k25":-1,"k31":-2,"k25":-3}')
    out.append('{"w":' + "{" + ",".join('"a%db":%d' % (i, i) for i in range(30)) + ',"a7b":70,"a17b":170}' + "}")
    return out


def rule_print(progs, tier, name="JQPRINT"):
    out = []
    for cfg, P in progs.items():
        res = RuleResult(name, cfg)
        out.append(res)
        if not P.has_bin:
            res.bad("%s:anchor" % name, "the CLI crate is not part of this configuration (fail closed)")
            continue
        I = Interp(P, max_steps=200000000, max_depth=700)
        problems = {}
        n = 0
        flip = 0
        docs = [d for d in jsonnav.documents("quick") if len(d) < 3000 and not d.startswith("[" * 131) and not d.startswith('{"a":' * 100)]
        docs += ["[" * 120 + "]" * 120, '{"a":' * 100 + "1" + "}" * 100]
        dups = dup_documents(tier)
        if tier != "thorough":
            dups = dups[: 40] + dups[40::5] + dups[-5:]
        configs = [("compact", 1, "", 0), ("indent2", 0, "  ", 0), ("tab", 0, "\t", 0), ("ascii", 1, "", 1), ("indent7-ascii", 0, " " * 7, 1)]
        if tier == "thorough":
            configs += [("indent%d" % k, 0, " " * k, 0) for k in (1, 3, 4, 5, 6)]

        def bad(what, msg):
            problems.setdefault("%s:%s" % (name, what), msg)

        try:
            for di, doc in enumerate(docs + dups):
                exp = read(doc)
                b = doc.encode("utf-8")
                flip ^= 1
                I.features = {"avx2": bool(flip), "bmi2": bool(flip), "sse4.1": True, "sse4.2": True, "ssse3": True, "sse2": True}
                for f in ("util::simd::x86::has_fast_bmi2", "bits::scan::has_avx2"):
                    I.overrides[f] = lambda a, f=flip: f
                I.overrides["util::simd::escape::avx2_enabled"] = lambda a, f=flip: f
                I.statics.clear()
                js = Slice(list(b), 0, len(b))
                ix = I.call("json::light::JsonIndex::build", [js])
                cur = I.call("json::light::JsonIndex::<W>::root", [tmp_ref(ix), js])
                val = Adt("jq::lazy::JqValue", 0, "Cursor", [cur])
                cs = configs if (di % 3 == 0 or doc in dups[:60]) else configs[di % len(configs):][:2]
                for cname, compact, indent, ascii_ in cs:
                    desc = "%d-byte document %r, %s output" % (len(b), doc[:60], cname)
                    cfgv = Adt("jq_runner::OutputConfig", 0, "OutputConfig", [compact, 0, 0, 0, ascii_, 0, Adt("output::ColorScheme", 0, "ColorScheme", []), 0, StrBuf(list(indent.encode())), 0, 0, 1])
                    outb = []
                    scratch = []
                    fm = Adt("jq_runner::JqCompatFormatter", 0, "JqCompatFormatter", [])
                    r = I.call("bin::jq_runner::print_json", [tmp_ref(outb), tmp_ref(val), tmp_ref(fm), tmp_ref(cfgv), 0, tmp_ref(scratch)], gen={"F": "jq_runner::JqCompatFormatter", "Out": "std::vec::Vec<u8>", "Wrd": "std::vec::Vec<u64>"})
                    n += 1
                    if not (isinstance(r, Adt) and r.vname == "Ok"):
                        bad("error", "print_json fails on %s: %r" % (desc, r))
                        continue
                    text = bytes(outb)
                    try:
                        got = read_plain(text.decode("utf-8"))
                    except (ValueError, UnicodeDecodeError) as e:
                        bad("not-json", "the output for %s is not JSON: %r (%s)" % (desc, text[:120], e))
                        continue
                    if got != exp:
                        bad("value", "the output for %s reads back as %s, jq's value is %s" % (desc, repr(got)[:160], repr(exp)[:160]))
                    if ascii_ and any(c >= 0x80 for c in text):
                        bad("ascii", "ascii output for %s contains non-ASCII bytes: %r" % (desc, text[:80]))
                    if not compact and indent and len(exp if isinstance(exp, list) else exp[1] if isinstance(exp, tuple) else "") > 0:
                        lines = text.decode("utf-8").split("\n")
                        if len(lines) < 2 or not lines[1].startswith(indent):
                            bad("indent", "indented output for %s does not use the indent unit: %r" % (desc, text[:80]))
        except Panic as e:
            res.bad("%s:panic" % name, "the identity printer panics on %s: %s" % (desc, e))
            continue
        except (Unsupported, KeyError, IndexError, AttributeError, TypeError) as e:
            res.bad("%s:evaluate" % name, "cannot evaluate the identity printer (%s): %r" % (desc, e))
            continue
        for k, m in sorted(problems.items()):
            res.bad(k, m)
        res.cells += n
        res.engines += 1
        res.ok({"documents": len(docs) + len(dups), "printed": n, "configurations": [c[0] for c in configs]})
    return out
