"""CLASS / CASCADE / TABLE for the JSON semi-index engines (C05, C32).

For every (byte, scanner state) cell the per-byte behaviour of each engine is tabulated with
the bytedom evaluator over the engine's own MIR:
  * reference: `standard::build_semi_index_scalar` / `simple::build_semi_index`
    (state_machine + writer loop), driven to state s by a fixed prefix;
  * PFSM: `standard::build_semi_index` (TRANSITION_TABLE / PHI_TABLE through
    `pfsm_process_chunk_optimized`), same prefixes;
  * SSE2 / AVX2: `classify_chars(splat(byte))` then `process_chunk_*` on a one-byte slice;
and compared cell by cell: the ordered bits written to `ib`, the ordered bits written to `bp`,
and the next state.  Lane/bit-position agreement of the SIMD engines is checked by placing
each class representative at every lane of an otherwise neutral chunk.
"""
from .harness import RuleResult
from .minimir import Adt, Interp, Opaque, Panic, Slice, Unsupported, Vec

BW = "json::bit_writer::BitWriter::"


def _bw_handlers():
    counter = [0]

    def with_capacity(I, args):
        counter[0] += 1
        return Opaque("bw%d" % counter[0])

    def finish(I, args):
        from .minimir import Ref

        r = args[0]
        if isinstance(r, Ref):
            r = I.read_path(r.frame, r.local, r.path)
        return r

    h = {
        "BitWriter::write_0": None,
        "BitWriter::write_1": None,
        "BitWriter::write_bit": None,
        "BitWriter::write_bits": None,
        "BitWriter::write_zeros": None,
        "BitWriter::with_capacity": with_capacity,
        "BitWriter::finish": finish,
    }
    return h, counter


def norm_trace(effects, names):
    """effects -> {'ib': '0110', 'bp': '10'} given receiver-name mapping."""
    out = {"ib": "", "bp": ""}
    for recv, meth, args in effects:
        if meth in ("with_capacity", "finish"):
            continue
        w = names.get(recv)
        if w is None:
            raise Unsupported("write to unknown writer %r" % (recv,))
        if meth == "write_0":
            out[w] += "0"
        elif meth == "write_1":
            out[w] += "1"
        elif meth == "write_bit":
            out[w] += "1" if args[0] else "0"
        elif meth == "write_zeros":
            out[w] += "0" * args[0]
        else:
            raise Unsupported("writer method %s" % meth)
    return out


STATES = {
    "standard": ["InJson", "InString", "InEscape", "InValue"],
    "simple": ["InJson", "InString", "InEscape"],
}
PREFIX = {"InJson": [], "InString": [0x22], "InEscape": [0x22, 0x5C], "InValue": [0x61]}


class WholeBuilder:
    """Engine given as a whole builder fn(&[u8]) -> SemiIndex, driven by state prefixes."""

    def __init__(self, P, fid, kind):
        self.P, self.fid, self.kind = P, fid, kind
        self.adt = None

    def _run(self, data):
        h, counter = _bw_handlers()
        I = Interp(self.P, effect_fns=h)
        r = I.call(self.fid, [Slice(list(data), 0, len(data))])
        if not isinstance(r, Adt):
            raise Unsupported("builder returned %r" % (r,))
        a = self.P.adts.get(r.path)
        fields = [f["name"] for f in a["variants"][0]["fields"]]
        vals = dict(zip(fields, r.fields))
        names = {}
        for w in ("ib", "bp"):
            o = vals.get(w)
            if not isinstance(o, Opaque):
                raise Unsupported("SemiIndex.%s is not a writer result" % w)
            names[o.name] = w
        return vals["state"].vname, norm_trace(I.effects, names)

    def table(self):
        tab = {}
        for s in STATES[self.kind]:
            pre = PREFIX[s]
            st0, tr0 = self._run(pre)
            if st0 != s:
                raise Unsupported("prefix %r leaves %s in state %s, expected %s" % (pre, self.fid, st0, s))
            for c in range(256):
                st, tr = self._run(pre + [c])
                d = {}
                for w in ("ib", "bp"):
                    if not tr[w].startswith(tr0[w]):
                        raise Unsupported("non-prefix trace")
                    d[w] = tr[w][len(tr0[w]):]
                tab[(c, s)] = (d["ib"], d["bp"], st)
        return tab


class ChunkEngine:
    """SIMD engine: classify_chars(vector) + process_chunk_*(class, state, ib, bp, bytes)."""

    def __init__(self, P, classify, process, state_path, width, kind):
        self.P, self.classify, self.process, self.state_path, self.W, self.kind = P, classify, process, state_path, width, kind
        self.I = Interp(P, effect_fns=["BitWriter::write_0", "BitWriter::write_1", "BitWriter::write_bit", "BitWriter::write_zeros", "BitWriter::write_bits"])

    def state(self, name):
        return Adt(self.state_path, STATES[self.kind].index(name) if self.kind == "simple" else STATES["standard"].index(name), name, [])

    def run_chunk(self, lanes, data, s):
        I = self.I
        I.reset()
        cl = I.call(self.classify, [Vec(lanes)])
        I.reset()
        r = I.call(self.process, [cl, self.state(s), Opaque("ib"), Opaque("bp"), Slice(list(data), 0, len(data))])
        tr = norm_trace(I.effects, {"ib": "ib", "bp": "bp"})
        return tr["ib"], tr["bp"], r.vname

    def table(self):
        tab = {}
        for s in STATES[self.kind]:
            for c in range(256):
                tab[(c, s)] = self.run_chunk([c] * self.W, [c], s)
        return tab


def class_reps(ref):
    """One representative per distinct reference row, plus the neighbours of each class boundary."""
    states = sorted({s for (_, s) in ref})
    row = lambda c: tuple(ref[(c, s)] for s in states)  # noqa: E731
    reps = set()
    seen = {}
    for c in range(256):
        r = row(c)
        if r not in seen:
            seen[r] = c
            reps.add(c)
        if c > 0 and row(c - 1) != r:
            reps.add(c)
            reps.add(c - 1)
    return sorted(reps)


def rule_json(progs, tier, kind="standard"):
    out = []
    for cfg, P in progs.items():
        res = RuleResult("CLASS+CASCADE+TABLE(json-%s)" % kind, cfg)
        out.append(res)
        try:
            if kind == "standard":
                ref = WholeBuilder(P, "json::standard::build_semi_index_scalar", kind).table()
                engines = {
                    "pfsm(build_semi_index)": lambda: WholeBuilder(P, "json::standard::build_semi_index", kind).table(),
                }
                chunk = {
                    "sse2": ChunkEngine(P, "json::simd::x86::classify_chars", "json::simd::x86::process_chunk_standard", "json::standard::State", 16, kind),
                    "avx2": ChunkEngine(P, "json::simd::avx2::classify_chars", "json::simd::avx2::process_chunk_standard", "json::standard::State", 32, kind),
                }
            else:
                ref = WholeBuilder(P, "json::simple::build_semi_index", kind).table()
                engines = {}
                chunk = {
                    "sse2": ChunkEngine(P, "json::simd::x86::classify_chars", "json::simd::x86::process_chunk_simple", "json::simple::State", 16, kind),
                    "avx2": ChunkEngine(P, "json::simd::avx2::classify_chars", "json::simd::avx2::process_chunk_simple", "json::simple::State", 32, kind),
                }
        except (Unsupported, Panic, KeyError) as e:
            res.bad("json-%s:reference" % kind, "cannot tabulate the reference engine: %s" % e)
            continue
        res.engines += 1
        # specification sanity of the reference itself (finite table from the module docs / RFC 8259 structure)
        spec = spec_table(kind)
        diffs = [(c, s) for (c, s) in ref if ref[(c, s)] != spec[(c, s)]]
        res.cells += len(ref)
        if diffs:
            c, s = diffs[0]
            res.bad(
                "json-%s:reference-vs-spec" % kind,
                "reference state machine differs from the documented machine at %d cells, first byte 0x%02x state %s: code %r, spec %r" % (len(diffs), c, s, ref[(c, s)], spec[(c, s)]),
            )
        else:
            res.ok({"engine": "reference", "cells": len(ref), "agrees_with": "documented state machine"})
        tables = {}
        for name, mk in engines.items():
            try:
                tables[name] = mk()
            except (Unsupported, Panic, KeyError) as e:
                res.bad("json-%s:%s" % (kind, name), "cannot tabulate engine %s: %s" % (name, e))
        for name, eng in chunk.items():
            try:
                tables[name] = eng.table()
            except (Unsupported, Panic, KeyError) as e:
                res.bad("json-%s:%s" % (kind, name), "cannot tabulate engine %s: %s" % (name, e))
        for name, tab in tables.items():
            res.engines += 1
            res.cells += len(tab)
            diffs = [(c, s) for (c, s) in ref if tab.get((c, s)) != ref[(c, s)]]
            if diffs:
                c, s = diffs[0]
                res.bad(
                    "json-%s:%s" % (kind, name),
                    "engine %s disagrees with the reference machine at %d of %d cells; first: byte 0x%02x (%r) in state %s -> (ib,bp,next)=%r, reference %r"
                    % (name, len(diffs), len(ref), c, chr(c) if 32 <= c < 127 else "?", s, tab.get((c, s)), ref[(c, s)]),
                )
            else:
                res.ok({"engine": name, "cells": len(tab), "agrees_with": "reference"})
        # lane / bit-position agreement
        reps = class_reps(ref)
        filler = 0x20
        for name, eng in chunk.items():
            if name not in tables:
                continue
            W = eng.W
            positions = range(W) if tier == "thorough" else sorted({0, 1, 7, 8, W // 2 - 1, W // 2, W - 2, W - 1})
            bad = None
            n = 0
            try:
                for s in STATES[kind]:
                    for c in reps:
                        for j in positions:
                            data = [filler] * W
                            data[j] = c
                            got = eng.run_chunk(data, data, s)
                            # expected: fold the reference per-byte table
                            ib = bp = ""
                            st = s
                            for b in data:
                                i1, b1, st = ref[(b, st)]
                                ib += i1
                                bp += b1
                            n += 1
                            if got != (ib, bp, st) and bad is None:
                                bad = (c, s, j, got, (ib, bp, st))
            except (Unsupported, Panic) as e:
                res.bad("json-%s:%s:lanes" % (kind, name), "cannot evaluate lane sweep: %s" % e)
                continue
            res.cells += n
            if bad:
                c, s, j, got, exp = bad
                res.bad(
                    "json-%s:%s:lanes" % (kind, name),
                    "engine %s: byte 0x%02x at lane %d from state %s gives %r, reference fold gives %r (class bit and byte position disagree)" % (name, c, j, s, got, exp),
                )
            else:
                res.ok({"engine": name, "lane_sweep": n, "representatives": len(reps), "positions": len(list(positions))})
        # whole SIMD builders over chunk-boundary families (loop extent, state carry, padded tail)
        builders = {
            "sse2-builder": "json::simd::x86::build_semi_index_%s" % kind,
            "avx2-builder": "json::simd::avx2::build_semi_index_%s" % kind,
            "dispatch-builder": "json::simd::build_semi_index_%s" % kind,
        }
        fam = boundary_family(tier)
        for bname, fid in builders.items():
            if not P.find(fid):
                res.bad("json-%s:%s" % (kind, bname), "builder %s not found (anchor missing)" % fid)
                continue
            bad = None
            n = 0
            try:
                wb = WholeBuilder(P, fid, kind)
                for data in fam:
                    st, tr = wb._run(data)
                    ib = bp = ""
                    cur = "InJson"
                    for b in data:
                        i1, b1, cur = ref[(b, cur)]
                        ib += i1
                        bp += b1
                    n += 1
                    if (tr["ib"], tr["bp"], st) != (ib, bp, cur) and bad is None:
                        bad = (data, (tr["ib"], tr["bp"], st), (ib, bp, cur))
            except (Unsupported, KeyError) as e:
                res.bad("json-%s:%s" % (kind, bname), "cannot evaluate builder %s: %s" % (fid, e))
                continue
            except Panic as e:
                res.bad("json-%s:%s" % (kind, bname), "builder %s panics or reads out of bounds on a %d-byte input: %s" % (fid, len(data), e))
                continue
            res.cells += n
            res.engines += 1
            if bad:
                data, got, exp = bad
                k = next((i for i in range(min(len(got[0]), len(exp[0]))) if got[0][i] != exp[0][i]), None)
                res.bad("json-%s:%s" % (kind, bname), "builder %s on a %d-byte input %r...: (ib,bp,final state) differs from the reference fold (first ib difference at byte %s; final state %s vs %s; bp lengths %d vs %d)" % (fid, len(data), bytes(data[:40]), k, got[2], exp[2], len(got[1]), len(exp[1])))
            else:
                res.ok({"engine": bname, "inputs": n})
        res.require_floor(8 if kind == "standard" else 7, "engine tabulations")
    return out


def boundary_family(tier):
    """Inputs whose interesting bytes sit at and around the 16/32-byte chunk edges, with the
    scanner in each state when the edge is crossed."""
    fam = [[]]
    lens = [1, 15, 16, 17, 31, 32, 33, 47, 48, 49, 63, 64, 65, 70] if tier == "thorough" else [1, 16, 17, 32, 33, 48, 65]
    for L in lens:
        fam.append([0x20] * L)
        fam.append([0x61] * L)  # one long value
        fam.append([0x22] + [0x78] * (L - 1) if L > 1 else [0x22])  # unterminated string
        for p in sorted({0, 14, 15, 16, 17, 30, 31, 32, 33, 46, 47, 48, L - 2, L - 1}):
            if not (0 <= p < L):
                continue
            # string opened before p, escape / quote / backslash-quote at the edge
            for seq in ([0x5C, 0x22], [0x22], [0x5C, 0x5C, 0x22], [0x5C]):
                d = [0x22] + [0x78] * (L - 1)
                for j, b in enumerate(seq):
                    if 1 <= p + j < L:
                        d[p + j] = b
                fam.append(d + [0x2C, 0x31, 0x5D])
            # structural and value bytes at the edge outside strings
            for b in (0x7B, 0x7D, 0x5B, 0x5D, 0x2C, 0x3A, 0x31, 0x2D, 0x74):
                d = [0x20] * L
                d[p] = b
                fam.append(d)
            d = [0x31] * L  # value running across the edge then ended by a delimiter at p
            d[p] = 0x2C
            fam.append(d)
    fam.append(list(b'{"a":[1,2,{"b":"c\\\"d"}],"e":null,"f":-1.5e+10}' * 3))
    return fam


def spec_table(kind):
    """The documented machines, written independently of the code (module docs of
    json/standard.rs and json/simple.rs; structural bytes per RFC 8259)."""
    tab = {}
    OPEN, CLOSE, DELIM = {0x5B, 0x7B}, {0x5D, 0x7D}, {0x2C, 0x3A}
    VALUE = set(range(0x30, 0x3A)) | set(range(0x41, 0x5B)) | set(range(0x61, 0x7B)) | {0x2E, 0x2D, 0x2B}
    Q, BS = 0x22, 0x5C
    for c in range(256):
        if kind == "standard":
            # (ib bits, bp bits, next)
            if c in OPEN:
                j = ("1", "1", "InJson")
            elif c in CLOSE:
                j = ("0", "0", "InJson")
            elif c in DELIM:
                j = ("0", "", "InJson")
            elif c in VALUE:
                j = ("1", "10", "InValue")
            elif c == Q:
                j = ("1", "10", "InString")
            else:
                j = ("0", "", "InJson")
            tab[(c, "InJson")] = j
            tab[(c, "InString")] = ("0", "", "InJson" if c == Q else "InEscape" if c == BS else "InString")
            tab[(c, "InEscape")] = ("0", "", "InString")
            if c in OPEN:
                v = ("1", "1", "InJson")
            elif c in CLOSE:
                v = ("0", "0", "InJson")
            elif c in DELIM:
                v = ("0", "", "InJson")
            elif c in VALUE:
                v = ("0", "", "InValue")
            else:
                v = ("0", "", "InJson")
            tab[(c, "InValue")] = v
        else:
            if c in OPEN:
                j = ("1", "11", "InJson")
            elif c in CLOSE:
                j = ("1", "00", "InJson")
            elif c in DELIM:
                j = ("1", "01", "InJson")
            elif c == Q:
                j = ("0", "", "InString")
            else:
                j = ("0", "", "InJson")
            tab[(c, "InJson")] = j
            tab[(c, "InString")] = ("0", "", "InJson" if c == Q else "InEscape" if c == BS else "InString")
            tab[(c, "InEscape")] = ("0", "", "InString")
    return tab
