"""Check harness: run the rules of one property, apply known findings, write evidence."""
import json
import os
import sys
import time
import traceback

from . import core
from . import facts as F

VERIF = F.VERIF


class Violation:
    def __init__(self, rule, key, msg, loc=None, cfg=None):
        self.rule = rule
        self.key = key  # stable, no line numbers
        self.msg = msg
        self.loc = loc
        self.cfg = cfg

    def to_json(self):
        return {"rule": self.rule, "key": self.key, "msg": self.msg, "loc": self.loc, "cfg": self.cfg}


class RuleResult:
    """Outcome of one rule over one configuration (or config-independent)."""

    def __init__(self, rule, cfg=None):
        self.rule = rule
        self.cfg = cfg
        self.instances = []  # written-out obligations (short strings / dicts)
        self.violations = []
        self.notes = []
        self.floor = None
        self.engines = 0  # programs compared (translation validation rules)
        self.cells = 0  # cells compared

    def ok(self, inst):
        self.instances.append(inst)

    def bad(self, key, msg, loc=None):
        self.instances.append({"VIOLATED": key})
        self.violations.append(Violation(self.rule, key, msg, loc, self.cfg))

    def note(self, s):
        self.notes.append(s)

    def require_floor(self, floor, what):
        self.floor = floor
        n = len(self.instances)
        if n < floor:
            self.violations.append(
                Violation(
                    self.rule,
                    "%s:floor" % self.rule,
                    "rule %s matched %d %s, below the hand-confirmed floor %d (anchor missing or idiom no longer recognised: fail closed)"
                    % (self.rule, n, what, floor),
                    None,
                    self.cfg,
                )
            )


def load_known():
    p = os.path.join(VERIF, "known_findings.json")
    if not os.path.exists(p):
        return {"findings": [], "fixed": []}
    with open(p) as fh:
        return json.load(fh)


def run_property(pid, tier, rule_fns, level, explanation, configs_quick, configs_thorough, only=None, trusted=None):
    """rule_fns: list of callables (progs: {cfg: Program}, tier) -> list[RuleResult]."""
    t0 = time.time()
    seed = int(os.environ.get("VERIF_SEED", "0") or 0)
    configs = configs_thorough if tier == "thorough" else configs_quick
    progs, th = core.load_programs(configs)
    results = []
    crashed = []
    for rf in rule_fns:
        try:
            rs = rf(progs, tier)
            results.extend(rs)
        except Exception as e:  # a rule that cannot run fails closed
            tb = traceback.format_exc()
            sys.stderr.write(tb)
            r = RuleResult(getattr(rf, "__name__", "rule"))
            r.violations.append(Violation(r.rule, r.rule + ":crash", "rule crashed (fail closed): %r" % (e,)))
            results.append(r)
            crashed.append(r.rule)

    known = load_known()
    kf = {(k["property"], k["key"]): k for k in known.get("findings", [])}
    viol = []
    seen_keys = set()
    known_hit = []
    for r in results:
        for v in r.violations:
            if only and v.key != only:
                continue
            kk = (pid, v.key)
            if (v.key, v.cfg) in seen_keys:
                continue
            seen_keys.add((v.key, v.cfg))
            if kk in kf:
                if v.key not in [k["key"] for k in known_hit]:
                    known_hit.append(kf[kk])
            else:
                viol.append(v)
    # collapse same key across configurations
    uniq = {}
    for v in viol:
        uniq.setdefault(v.key, v)
    viol = list(uniq.values())

    for k in known_hit:
        print("KNOWN-FINDING: property=%s %s %s" % (pid, k["key"], k.get("what", "")))
    vfile = os.path.join(VERIF, "evidence", "%s.violations.json" % pid)
    os.makedirs(os.path.dirname(vfile), exist_ok=True)
    if viol:
        with open(vfile, "w") as fh:
            json.dump([v.to_json() for v in viol], fh, indent=1)
        for v in viol:
            print("  [%s] %s: %s%s" % (v.rule, v.key, v.msg, (" (%s)" % v.loc) if v.loc else ""))
        print("VIOLATION property=%s replay=%s" % (pid, vfile))
    else:
        if os.path.exists(vfile):
            os.remove(vfile)

    # evidence
    per_rule = {}
    for r in results:
        e = per_rule.setdefault(r.rule, {"instances": 0, "violations": 0, "configs": [], "floor": r.floor, "samples": [], "notes": []})
        e["instances"] += len(r.instances)
        e["violations"] += len(r.violations)
        if r.cfg and r.cfg not in e["configs"]:
            e["configs"].append(r.cfg)
        if r.floor is not None:
            e["floor"] = r.floor
        for s in r.instances:
            if len(e["samples"]) < 8:
                e["samples"].append(s)
        for n in r.notes:
            if n not in e["notes"] and len(e["notes"]) < 12:
                e["notes"].append(n)
    obligations = sum(len(r.instances) for r in results)
    distinct = len({json.dumps(s, sort_keys=True, default=str) for r in results for s in r.instances})
    discharged = obligations - sum(len(r.violations) for r in results)
    samples = []
    for rname, e in per_rule.items():
        for s in e["samples"][:3]:
            samples.append({"rule": rname, "instance": s})
    loaded = progs.loaded() if hasattr(progs, "loaded") else dict(progs.items())
    nfn = {cfg: len(p.fns) for cfg, p in loaded.items()}
    ncalls = {cfg: sum(len(f.calls) for f in p.fns.values()) for cfg, p in loaded.items()} if tier == "thorough" else None
    cov = {
        "explanation": explanation,
        "evaluations": max(obligations, 1),
        "distinct_nontrivial": max(distinct, 0),
        "rule": "each instance is one obligation of a named rule at one construct of /repo's MIR (function, call site, table cell group, field group); distinct = distinct written-out obligations; instances are discovered from the current tree on every run and must reach the hand-confirmed floor",
        "samples": samples[:40] or ["<none>"],
        "obligations": obligations,
        "discharged": max(discharged, 0),
        "checker_cmd": "./check %s --tier %s" % (pid, tier),
        "trusted_base": trusted
        or [
            "rustc nightly front end, MIR construction, const evaluation, callee resolution",
            "mirfacts driver (fact serialisation)",
            "rule implementations under /verif/rules and their hand-confirmed instance tables",
        ],
        "configurations": configs,
        "configurations_parsed": sorted(loaded),
        "functions_analysed": nfn,
        "tree_hash": th,
        "per_rule": per_rule,
        "known_findings_matched": [k["key"] for k in known_hit],
        "rules_crashed": crashed,
    }
    if ncalls:
        cov["call_sites_seen"] = ncalls
    if level == "translation_validation":
        cov["programs"] = max(sum(r.engines for r in results), 1)
        cov["disagreements_checked"] = sum(r.cells for r in results)
    ev = {
        "property_id": pid,
        "tier": tier,
        "seed": seed,
        "level": level,
        "coverage": cov,
        "assumptions": [
            "static analysis of the cfg-resolved, type-checked program for the listed cargo configurations on x86_64; aarch64-only modules are not compiled here",
            "decides the structural clauses named in DESIGN.md for this property, not the behavioural statement whole",
        ],
        "wall_s": round(time.time() - t0, 3),
        "violations": len(viol),
    }
    with open(os.path.join(VERIF, "evidence", "%s.json" % pid), "w") as fh:
        json.dump(ev, fh, indent=1, default=str)
    print(
        "%s %s: %d obligations over %s, %d violation(s), %d known finding(s), %.1fs"
        % (pid, tier, obligations, ",".join(configs), len(viol), len(known_hit), time.time() - t0)
    )
    return 1 if viol else 0
