"""SCANTAB — the vectorised JSON escape scanner (`util::simd::escape::json_escape`) evaluated
from MIR over (a) every byte value at every code region of each kernel (AVX2 loop lanes, SSE2
tail lanes, scalar remainder) and (b) a boundary-complete family of (length, start, needle
position) triples, against the definition: first index >= start holding `"`, `\\` or a byte
< 0x20, else len.  Engines: dispatch(.., true) [AVX2], dispatch(.., false) [SSE2], scalar, and
the public `find_json_escape`."""
from .harness import RuleResult
from .minimir import Interp, Panic, Slice, Unsupported

SPECIAL = set(range(0x20)) | {0x22, 0x5C}
FILL = 0x61


def spec(buf, start):
    for i in range(start, len(buf)):
        if buf[i] in SPECIAL:
            return i
    return len(buf)


def rule_escape_scanner(progs, tier, name="SCANTAB(json_escape)"):
    out = []
    for cfg, P in progs.items():
        res = RuleResult(name, cfg)
        out.append(res)
        I = Interp(P, max_steps=400000)
        I.features = {"avx2": True}
        mod = "util::simd::escape::json_escape::"
        engines = {
            "avx2(dispatch true)": lambda b, s: I.call(mod + "dispatch", [Slice(list(b), 0, len(b)), s, 1]),
            "sse2(dispatch false)": lambda b, s: I.call(mod + "dispatch", [Slice(list(b), 0, len(b)), s, 0]),
            "scalar": lambda b, s: I.call(mod + "scalar", [Slice(list(b), 0, len(b)), s]) if s <= len(b) else len(b),
        }

        def find_with(flag):
            def run(b, s):
                I.overrides["util::simd::escape::avx2_enabled"] = lambda args: flag
                return I.call("util::simd::escape::find_json_escape", [Slice(list(b), 0, len(b)), s])
            return run

        engines["find_json_escape[avx2 detected]"] = find_with(1)
        engines["find_json_escape[avx2 absent]"] = find_with(0)
        cases = []
        # (a) class sweep: every byte value at each code region
        L = 53
        for c in range(256):
            for p in (0, 31, 32, 47, 48, 52):
                buf = [FILL] * L
                buf[p] = c
                cases.append((buf, 0))
        # (b) boundary family
        lens = [0, 1, 15, 16, 17, 31, 32, 33, 47, 48, 49, 63, 64, 65, 80] if tier == "thorough" else [0, 1, 16, 17, 32, 33, 48, 49, 65]
        for Ln in lens:
            starts = sorted({0, 1, 5, 16, 17, max(Ln - 1, 0), Ln, Ln + 1})
            for st in starts:
                pos = sorted({st, st + 1, st + 15, st + 16, st + 31, st + 32, st + 47, st + 48, Ln - 1})
                pos = [p for p in pos if 0 <= p < Ln]
                cases.append(([FILL] * Ln, st))
                for p in pos:
                    for needle in (0x22, 0x5C, 0x1F, 0x00):
                        buf = [FILL] * Ln
                        buf[p] = needle
                        cases.append((buf, st))
                        if 0 < st <= Ln:
                            b2 = list(buf)
                            b2[st - 1] = 0x22  # a special byte just before start must be ignored
                            cases.append((b2, st))
        for ename, run in engines.items():
            bad = None
            n = 0
            try:
                for buf, st in cases:
                    if ename == "scalar" and st > len(buf):
                        continue
                    got = run(buf, st)
                    exp = spec(buf, st)
                    n += 1
                    if got != exp and bad is None:
                        bad = (buf, st, got, exp)
            except Panic as e:
                res.bad("%s:%s" % (name, ename), "engine %s panics / reads out of bounds on len=%d start=%d: %s" % (ename, len(buf), st, e))
                continue
            except (Unsupported, KeyError) as e:
                res.bad("%s:%s" % (name, ename), "cannot evaluate engine %s: %s" % (ename, e))
                continue
            res.cells += n
            res.engines += 1
            if bad:
                buf, st, got, exp = bad
                special = [(i, hex(b)) for i, b in enumerate(buf) if b != FILL]
                res.bad("%s:%s" % (name, ename), "engine %s returns %s for len=%d start=%d non-filler bytes %s; definition gives %d" % (ename, got, len(buf), st, special, exp))
            else:
                res.ok({"engine": ename, "cases": n})
        res.require_floor(5, "engines")
    return out
