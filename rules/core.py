"""Program model over mirfacts output: functions, CFGs, call graph, dominators."""
import re
from collections import defaultdict

from . import facts as F


class Call:
    __slots__ = ("fn", "bb", "callee", "resolved", "gargs", "args", "dest", "target", "line", "exp", "local", "raw")

    def __init__(self, fn, bb, term, line, exp):
        self.fn = fn
        self.bb = bb
        f = term[1]
        self.args = term[2]
        self.dest = term[3]
        self.target = term[4]
        self.line = line
        self.exp = exp
        self.raw = f
        self.callee = None
        self.resolved = None
        self.gargs = []
        self.local = False
        if f[0] == "k" and "fn" in f[1]:
            k = f[1]
            self.callee = fn.prog.norm(k["fn"], k.get("l", False))
            self.gargs = k.get("g", [])
            if "r" in k:
                self.resolved = fn.prog.norm(k["r"], k.get("rl", False))
                self.local = k.get("rl", False) or fn.prog.is_lib_path(k["r"])
            else:
                self.resolved = self.callee
                self.local = k.get("rl", k.get("l", False)) or fn.prog.is_lib_path(k["fn"])

    @property
    def name(self):
        return self.resolved or self.callee or "<indirect>"

    def __repr__(self):
        return "Call(%s@%s:bb%d -> %s)" % (self.fn.id, self.line, self.bb, self.name)


class Fn:
    def __init__(self, prog, raw, crate):
        self.prog = prog
        self.raw = raw
        self.crate = crate
        rid = raw["id"]
        self.id = ("bin::" + rid) if crate == "bin" else rid
        self.file = raw["file"]
        self.line = raw["line"]
        self.end = raw["end"]
        self.kind = raw["kind"]
        self.root = None
        if "root" in raw:
            self.root = ("bin::" + raw["root"]) if crate == "bin" else raw["root"]
        self.tf = set(raw.get("tf", []))
        self.blocks = raw["blocks"]
        self.nargs = raw["nargs"]
        self.locals = raw["locals"]
        self.names = {}
        for nm, pl in raw.get("names", []):
            if not pl[1]:
                self.names.setdefault(pl[0], nm)
        self._calls = None
        self._succ = None
        self._dom = {}

    @property
    def pub(self):
        return self.raw.get("pub", False)

    @property
    def is_unsafe(self):
        return self.raw.get("unsafe", False)

    def loc(self, line=None):
        return "%s:%d" % (self.file, line or self.line)

    def local_name(self, l):
        return self.names.get(l, "_%d" % l)

    @property
    def calls(self):
        if self._calls is None:
            cs = []
            for i, b in enumerate(self.blocks):
                t = b["t"]
                if t[0] == "call":
                    cs.append(Call(self, i, t, b["l"], b["x"]))
            self._calls = cs
        return self._calls

    def successors(self, prune_const=True):
        """Per block successor list (cleanup/unwind edges are not represented in the facts)."""
        key = prune_const
        if self._succ is None:
            self._succ = {}
        if key in self._succ:
            return self._succ[key]
        succ = []
        constloc = self._const_locals() if prune_const else {}
        for b in self.blocks:
            t = b["t"]
            k = t[0]
            if k == "goto":
                s = [t[1]]
            elif k == "switch":
                op = t[1]
                if prune_const and op[0] in ("c", "m") and not op[1][1] and op[1][0] in constloc:
                    op = ["k", {"v": constloc[op[1][0]]}]
                if prune_const and op[0] == "k" and "v" in op[1]:
                    v = op[1]["v"]
                    tgt = t[3]
                    for val, tg in t[2]:
                        if val == v:
                            tgt = tg
                    s = [tgt]
                else:
                    s = [tg for _, tg in t[2]] + [t[3]]
            elif k == "call":
                s = [t[4]] if t[4] is not None else []
            elif k == "drop":
                s = [t[2]]
            elif k == "assert":
                s = [t[4]]
            elif k == "asm":
                s = list(t[1])
            else:
                s = []
            # dedupe, keep order
            seen = []
            for x in s:
                if x not in seen:
                    seen.append(x)
            succ.append(seen)
        self._succ[key] = succ
        return succ

    def _const_locals(self):
        """Locals assigned exactly once in the body, by a scalar constant (e.g. the
        `cfg!(debug_assertions)` flag a `debug_assert!` switches on)."""
        if getattr(self, "_cl", None) is not None:
            return self._cl
        ndef = {}
        val = {}
        for b in self.blocks:
            for s in b["s"]:
                if s[0] == "a":
                    l = s[1][0]
                    ndef[l] = ndef.get(l, 0) + 1
                    if s[2][0] in ("ref", "ptr") and s[2][1] != "shared" and s[2][1] != "fake":
                        ndef[s[2][2][0]] = ndef.get(s[2][2][0], 0) + 2  # mutably borrowed: not a constant
                    if not s[1][1] and s[2][0] == "use" and s[2][1][0] == "k" and "v" in s[2][1][1]:
                        val[l] = s[2][1][1]["v"]
                    else:
                        val.pop(l, None)
                        ndef[l] = ndef.get(l, 0) + 1
            t = b["t"]
            if t[0] == "call":
                l = t[3][0]
                ndef[l] = ndef.get(l, 0) + 2
        self._cl = {l: v for l, v in val.items() if ndef.get(l) == 1 and l > self.nargs}
        return self._cl

    def reachable_blocks(self, prune_const=True, start=0, succ=None):
        succ = succ or self.successors(prune_const)
        seen = {start}
        st = [start]
        while st:
            n = st.pop()
            for m in succ[n]:
                if m not in seen:
                    seen.add(m)
                    st.append(m)
        return seen

    def dominators(self, prune_const=True, succ=None, key=None):
        """dom[b] = set of blocks dominating b (over reachable blocks from entry)."""
        ck = key if key is not None else ("dom", prune_const)
        if succ is None and ck in self._dom:
            return self._dom[ck]
        succ = succ or self.successors(prune_const)
        reach = self.reachable_blocks(prune_const, succ=succ)
        preds = defaultdict(list)
        for n in reach:
            for m in succ[n]:
                if m in reach:
                    preds[m].append(n)
        # reverse postorder
        order = []
        seen = set()

        def dfs(root):
            stack = [(root, iter(succ[root]))]
            seen.add(root)
            while stack:
                n, it = stack[-1]
                adv = False
                for m in it:
                    if m in reach and m not in seen:
                        seen.add(m)
                        stack.append((m, iter(succ[m])))
                        adv = True
                        break
                if not adv:
                    order.append(n)
                    stack.pop()

        dfs(0)
        rpo = list(reversed(order))
        dom = {n: None for n in reach}
        dom[0] = {0}
        changed = True
        while changed:
            changed = False
            for n in rpo:
                if n == 0:
                    continue
                ps = [dom[p] for p in preds[n] if dom[p] is not None]
                if not ps:
                    continue
                new = set.intersection(*ps) | {n}
                if dom[n] != new:
                    dom[n] = new
                    changed = True
        for n in dom:
            if dom[n] is None:
                dom[n] = {n}
        if key is not None or succ is self.successors(prune_const):
            self._dom[ck] = dom
        return dom

    def edge_dominates(self, src, dst, block, prune_const=True):
        """True iff every path entry->block passes the edge src->dst."""
        succ = [list(s) for s in self.successors(prune_const)]
        # remove the edge and test reachability
        succ2 = [list(s) for s in succ]
        if dst in succ2[src]:
            succ2[src] = [x for x in succ2[src] if x != dst]
        reach = self.reachable_blocks(prune_const, succ=succ2)
        return block not in reach

    def stmts(self):
        for i, b in enumerate(self.blocks):
            for j, s in enumerate(b["s"]):
                yield i, j, s


def place_local(pl):
    return pl[0]


def op_place(op):
    if op[0] in ("c", "m"):
        return op[1]
    return None


def op_const(op):
    if op[0] == "k":
        return op[1]
    return None


def op_int(op):
    """Integer value of a constant operand (unsigned bits), or None."""
    if op[0] == "k":
        return op[1].get("v")
    return None


class Program:
    """All functions of one configuration: lib (+ bin when present)."""

    def __init__(self, cfg, d):
        self.cfg = cfg
        self.dir = d
        self.fns = {}
        self.consts = {}
        self.adts = {}
        self.features = []
        lib = F.load_raw(d, "lib")
        if lib is None:
            raise SystemExit("no lib facts in %s" % d)
        self.features = lib.get("features", [])
        self._lib_mods = set()
        for raw in lib["fns"]:
            self._lib_mods.add(raw["id"].split("::")[0].lstrip("<"))
        self._load(lib, "lib")
        self.has_bin = False
        b = F.load_raw(d, "bin")
        if b is not None:
            self._load(b, "bin")
            self.has_bin = True
        self._cg = None
        self._rcg = None
        self._trait_impls = None

    def _load(self, raw, crate):
        for f in raw["fns"]:
            fn = Fn(self, f, crate)
            # generic duplicates cannot occur: ids are def paths; closures numbered
            if fn.id in self.fns:
                # impl blocks with same path (e.g. several `impl T`): disambiguate by line
                fn.id = "%s@%d" % (fn.id, fn.line)
            self.fns[fn.id] = fn
        pre = "bin::" if crate == "bin" else ""
        for c in raw["consts"]:
            self.consts[pre + c["id"]] = c
        for a in raw["adts"]:
            self.adts[pre + a["id"]] = a

    def is_lib_path(self, p):
        return p.startswith("succinctly::")

    def norm(self, path, local):
        """Normalise a def path printed in some crate to a Program-wide id."""
        if path.startswith("succinctly::"):
            return path[len("succinctly::"):]
        if path.startswith("<succinctly::"):
            return "<" + path[len("<succinctly::"):].replace(" succinctly::", " ")
        return path

    def fn(self, fid):
        return self.fns.get(fid)

    def find(self, suffix):
        """Functions whose id equals or ends with ::suffix."""
        out = [f for k, f in self.fns.items() if k == suffix or k.endswith("::" + suffix)]
        return out

    def one(self, suffix):
        fs = self.find(suffix)
        if len(fs) != 1:
            raise KeyError("expected exactly one function %r, found %d: %s" % (suffix, len(fs), [f.id for f in fs][:5]))
        return fs[0]

    # ------------------------------------------------------------- call graph
    def _resolve_id(self, call):
        """Map a call to the id(s) of function bodies in this program."""
        n = call.name
        if n in self.fns:
            return [n]
        if call.fn.crate == "bin" and ("bin::" + n) in self.fns:
            return ["bin::" + n]
        return []

    def trait_impls(self):
        if self._trait_impls is None:
            m = defaultdict(list)
            for f in self.fns.values():
                tr = f.raw.get("trait")
                if tr:
                    meth = f.raw["id"].rsplit("::", 1)[-1]
                    m[(self.norm(tr, False), meth)].append(f.id)
            self._trait_impls = m
        return self._trait_impls

    def callgraph(self):
        """fid -> set of callee fids (bodies present). Closures are attached to the function
        that constructs them; fn items mentioned as values are may-call edges; unresolved
        trait-method calls go to every impl in the program."""
        if self._cg is not None:
            return self._cg
        cg = defaultdict(set)
        ti = self.trait_impls()
        for f in self.fns.values():
            out = cg[f.id]
            for c in f.calls:
                ids = self._resolve_id(c)
                if ids:
                    out.update(ids)
                elif c.callee is not None:
                    # unresolved trait method (dyn or generic): all impls
                    nm = c.callee
                    if "::" in nm:
                        tr, meth = nm.rsplit("::", 1)
                        for fid in ti.get((tr, meth), []):
                            out.add(fid)
            # closures constructed here, fn items used as values
            for _, _, s in f.stmts():
                if s[0] != "a":
                    continue
                rv = s[2]
                if rv[0] == "agg" and rv[1].get("k") == "closure":
                    p = rv[1]["path"]
                    cid = ("bin::" + p) if f.crate == "bin" else p
                    if cid in self.fns:
                        out.add(cid)
                for k in _consts_in(rv):
                    if "fn" in k:
                        n = self.norm(k.get("r", k["fn"]), False)
                        if n in self.fns:
                            out.add(n)
                        elif f.crate == "bin" and "bin::" + n in self.fns:
                            out.add("bin::" + n)
            for c in f.calls:
                for a in c.args:
                    if a[0] == "k" and "fn" in a[1]:
                        n = self.norm(a[1].get("r", a[1]["fn"]), False)
                        if n in self.fns:
                            out.add(n)
                        elif f.crate == "bin" and "bin::" + n in self.fns:
                            out.add("bin::" + n)
        self._cg = cg
        return cg

    def rev_callgraph(self):
        if self._rcg is None:
            r = defaultdict(set)
            for a, bs in self.callgraph().items():
                for b in bs:
                    r[b].add(a)
            self._rcg = r
        return self._rcg

    def reachable(self, roots):
        cg = self.callgraph()
        seen = set(r for r in roots if r in self.fns)
        st = list(seen)
        while st:
            n = st.pop()
            for m in cg.get(n, ()):
                if m not in seen:
                    seen.add(m)
                    st.append(m)
        return seen

    def call_path(self, roots, target):
        """Shortest call chain from any root to target (list of ids) or None."""
        from collections import deque

        cg = self.callgraph()
        prev = {}
        dq = deque()
        for r in roots:
            if r in self.fns and r not in prev:
                prev[r] = None
                dq.append(r)
        while dq:
            n = dq.popleft()
            if n == target:
                path = []
                while n is not None:
                    path.append(n)
                    n = prev[n]
                return list(reversed(path))
            for m in sorted(cg.get(n, ())):
                if m not in prev:
                    prev[m] = n
                    dq.append(m)
        return None

    def sccs(self, nodes=None):
        """Tarjan SCCs (iterative) restricted to `nodes`; returns list of lists, only
        components with a cycle (size>1 or self-loop)."""
        cg = self.callgraph()
        nodes = set(nodes) if nodes is not None else set(self.fns)
        index = {}
        low = {}
        onstack = set()
        stack = []
        out = []
        counter = [0]
        for root in sorted(nodes):
            if root in index:
                continue
            work = [(root, iter(sorted(x for x in cg.get(root, ()) if x in nodes)))]
            index[root] = low[root] = counter[0]
            counter[0] += 1
            stack.append(root)
            onstack.add(root)
            while work:
                n, it = work[-1]
                adv = False
                for m in it:
                    if m not in index:
                        index[m] = low[m] = counter[0]
                        counter[0] += 1
                        stack.append(m)
                        onstack.add(m)
                        work.append((m, iter(sorted(x for x in cg.get(m, ()) if x in nodes))))
                        adv = True
                        break
                    elif m in onstack:
                        low[n] = min(low[n], index[m])
                if adv:
                    continue
                work.pop()
                if work:
                    p = work[-1][0]
                    low[p] = min(low[p], low[n])
                if low[n] == index[n]:
                    comp = []
                    while True:
                        w = stack.pop()
                        onstack.discard(w)
                        comp.append(w)
                        if w == n:
                            break
                    if len(comp) > 1 or n in cg.get(n, ()):
                        out.append(sorted(comp))
        return out


def _consts_in(rv):
    """Constant payload dicts mentioned in an rvalue's operands."""
    out = []

    def walk(x):
        if isinstance(x, list):
            if len(x) == 2 and x[0] == "k" and isinstance(x[1], dict):
                out.append(x[1])
            else:
                for y in x:
                    walk(y)

    walk(rv)
    return out


_PROGS = {}


class LazyProgs:
    """Mapping cfg -> Program that parses a configuration's facts only when a rule asks for it."""

    def __init__(self, configs, dirs, th):
        self.configs, self.dirs, self.th = list(configs), dirs, th

    def _get(self, cfg):
        key = (self.th, cfg)
        if key not in _PROGS:
            _PROGS[key] = Program(cfg, self.dirs[cfg])
        return _PROGS[key]

    def __getitem__(self, cfg):
        return self._get(cfg)

    def __contains__(self, cfg):
        return cfg in self.configs

    def __iter__(self):
        return iter(self.configs)

    def __len__(self):
        return len(self.configs)

    def keys(self):
        return list(self.configs)

    def items(self):
        return [(c, self._get(c)) for c in self.configs]

    def values(self):
        return [self._get(c) for c in self.configs]

    def subset(self, names):
        names = [c for c in self.configs if c in names]
        return LazyProgs(names, self.dirs, self.th)

    def loaded(self):
        return {c: _PROGS[(self.th, c)] for c in self.configs if (self.th, c) in _PROGS}


def load_programs(configs):
    dirs, th = F.ensure_facts(configs)
    return LazyProgs(configs, dirs, th), th
