"""Rules for text::lines / text::line_break (C12)."""
import re

from .core import op_place
from .dataflow import backward_slice, local_defs, _fields_of
from .harness import RuleResult
from .minimir import Adt, Interp, Panic, Slice, Unsupported


def rule_line_break_class(progs, tier, name="CLASS(line_break)"):
    """is_line_break / line_break_len / line_break_len_before evaluated from MIR on every
    (byte, next byte | end) window: LF and lone CR are one-byte breaks, CRLF is one two-byte
    break, everything else is no break; the backward helper mirrors the forward one."""
    out = []
    for cfg, P in progs.items():
        res = RuleResult(name, cfg)
        out.append(res)
        I = Interp(P)
        bad = None
        n = 0
        try:
            for b in range(256):
                got = I.call("text::line_break::is_line_break", [b])
                n += 1
                if bool(got) != (b in (0x0A, 0x0D)) and bad is None:
                    bad = ("is_line_break(0x%02x)" % b, got, b in (0x0A, 0x0D))
                for nxt in (None, 0x0A, 0x0D, 0x61, b):
                    for pre in ([], [0x61], [0x0D], [0x0A]):
                        text = pre + [b] + ([nxt] if nxt is not None else [])
                        pos = len(pre)
                        exp = 2 if (b == 0x0D and nxt == 0x0A) else 1 if b in (0x0A, 0x0D) else 0
                        got = I.call("text::line_break::line_break_len", [Slice(list(text), 0, len(text)), pos])
                        n += 1
                        if got != exp and bad is None:
                            bad = ("line_break_len(%r, %d)" % (bytes(text), pos), got, exp)
                        # backward helper: break ending at `pos+width` measured from after it
                        end = pos + 1
                        expb = 2 if (b == 0x0A and pre and pre[-1] == 0x0D) else 1 if b in (0x0A, 0x0D) else 0
                        gotb = I.call("text::line_break::line_break_len_before", [Slice(list(text), 0, len(text)), end])
                        n += 1
                        if gotb != expb and bad is None:
                            bad = ("line_break_len_before(%r, %d)" % (bytes(text), end), gotb, expb)
                for pos in (1, 2, 5):
                    got = I.call("text::line_break::line_break_len", [Slice([b], 0, 1), pos])
                    n += 1
                    if got != 0 and bad is None:
                        bad = ("line_break_len([0x%02x], %d) past the end" % (b, pos), got, 0)
        except Panic as e:
            res.bad("%s:panic" % name, "line-break helper panics: %s" % e)
            continue
        except (Unsupported, KeyError) as e:
            res.bad("%s:evaluate" % name, "cannot evaluate line-break helpers: %s" % e)
            continue
        res.cells += n
        res.engines += 3
        if bad:
            res.bad("%s:map" % name, "%s = %r, definition gives %r" % bad)
        else:
            res.ok({"helpers": ["is_line_break", "line_break_len", "line_break_len_before"], "cases": n})
        # REACH: LineIndex::build obtains break widths only through line_break_len
        b = P.fns.get("text::lines::LineIndex::build")
        if b is None:
            res.bad("%s:build" % name, "text::lines::LineIndex::build not found")
        else:
            names = [c.name for c in b.calls]
            if any(n.endswith("text::line_break::line_break_len") for n in names):
                res.ok({"LineIndex::build": "calls text::line_break::line_break_len"})
            else:
                res.bad("%s:build" % name, "LineIndex::build no longer obtains break widths from text::line_break::line_break_len (shared rule bypassed)", b.loc())
    return out


CMP = {"Lt": ("Lt", False), "Le": ("Le", False), "Gt": ("Lt", True), "Ge": ("Le", True)}


def rule_cmp_consistency(progs, tier, scope=r"^text::lines::LineIndex::", a_call=r"EliasFano::get$", b_name=r"^query$", name="CMPCONSIST(LineIndex)", floor=1):
    """Contradiction rule (Engler): within the line-index query code every comparison between a
    line start fetched from the index (`starts.get(..)`) and the query offset must use the same
    relation.  The forward walk advances while `next_start <= query`; a second test written with
    `<` disagrees exactly when the query is the first byte of a line, so the cached / returned
    line is off by one for that offset."""
    out = []
    for cfg, P in progs.items():
        res = RuleResult(name, cfg)
        out.append(res)
        for f in sorted(P.fns.values(), key=lambda f: f.id):
            if f.crate != "lib" or not re.search(scope, f.id):
                continue
            rels = {}
            for bi, b in enumerate(f.blocks):
                for s in b["s"]:
                    if s[0] != "a" or s[2][0] != "bin" or s[2][1] not in CMP:
                        continue
                    sides = []
                    for o in (s[2][2], s[2][3]):
                        pl = op_place(o)
                        if pl is None:
                            sides.append("?")
                            continue
                        sl = backward_slice(f, pl[0], max_nodes=25, fields=_fields_of(pl[1]))
                        is_a = any(cn and re.search(a_call, cn) for _, cn in sl.calls)
                        is_b = any(re.search(b_name, n) for n in sl.names) and not is_a
                        sides.append("A" if is_a else "B" if is_b else "?")
                    if sorted(sides) != ["A", "B"]:
                        continue
                    op, flipped = CMP[s[2][1]]
                    # normalise to  A <rel> B
                    a_first = sides[0] == "A"
                    if flipped:
                        a_first = not a_first
                    rel = ("A %s B" % ("<" if op == "Lt" else "<=")) if a_first else ("B %s A" % ("<" if op == "Lt" else "<="))
                    rels.setdefault(rel, []).append(s[3])
            if not rels:
                continue
            # `A <= B` and `B < A` are the same test (negations); `A < B` / `B <= A` likewise
            classes = set()
            for r in rels:
                classes.add("le" if r in ("A <= B", "B < A") else "lt")
            if len(classes) > 1:
                lines = sorted(l for ls in rels.values() for l in ls)
                res.bad("%s:%s" % (name, f.id), "%s compares an index line start with the query offset both as `start <= query` and as `start < query` (relations %s): the two tests disagree when the query is exactly a line's first byte" % (f.id, sorted(rels)), f.loc(lines[0]))
            else:
                res.ok({"fn": f.id, "relation": sorted(rels), "sites": sum(len(v) for v in rels.values())})
        res.require_floor(floor, "comparison sites between index starts and the query")
    return out
