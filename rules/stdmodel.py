"""Models of the std functions and x86 intrinsics that occur inside the pure fragments the
bytedom engine evaluates.  Each intrinsic is a one-line lane formula following Intel's
pseudo-code.  Anything not listed raises Unsupported (the rule instance fails closed)."""
import re

from .minimir import (Adt, INT_TYPES, Opaque, Panic, Ptr, RangeIter, Ref, Slice, SliceIter,
                      Unsupported, Vec, wrap)


def some(v):
    return Adt("core::option::Option", 1, "Some", [v])


def ok(v):
    return Adt("core::result::Result", 0, "Ok", [v])


def err(v):
    return Adt("core::result::Result", 1, "Err", [v])


def cf_continue(v):
    return Adt("core::ops::ControlFlow", 0, "Continue", [v])


def cf_break(v):
    return Adt("core::ops::ControlFlow", 1, "Break", [v])


class EnumIter:
    __slots__ = ("it", "i")

    def __init__(self, it):
        self.it, self.i = it, 0


class ChunksIter:
    __slots__ = ("s", "n", "i", "exact")

    def __init__(self, s, n, exact=True):
        self.s, self.n, self.i, self.exact = s, n, 0, exact


class MapVal:
    """BTreeMap / HashMap: python dict keyed by the frozen key, value = (key, value); iteration in
    key order for BTreeMap (integers and byte strings order as in Rust), insertion order otherwise."""
    __slots__ = ("d", "sorted")

    def __init__(self, sorted_=True):
        self.d = {}
        self.sorted = sorted_

    def items(self):
        ks = list(self.d.keys())
        if self.sorted:
            ks.sort(key=lambda k: k[1] if isinstance(k, tuple) and len(k) == 2 and k[0] == "slice" else k)
        return [self.d[k] for k in ks]


class SetVal(MapVal):
    """IndexSet / BTreeSet / HashSet: a MapVal whose values are unit; iteration yields the keys."""
    __slots__ = ()


class WindowsIter:
    __slots__ = ("s", "n", "i")

    def __init__(self, s, n):
        self.s, self.n, self.i = s, n, 0


class CharsIter:
    __slots__ = ("s", "i")

    def __init__(self, s):
        self.s, self.i = s, 0


class StrBuf:
    """alloc::string::String / Vec<u8> modelled as a growable byte list."""
    __slots__ = ("b",)

    def __init__(self, b=()):
        self.b = list(b)

    def __repr__(self):
        return "StrBuf(%r)" % bytes(self.b)


def strbuf_of(I, v):
    v = deref(I, v)
    if isinstance(v, StrBuf):
        return v
    raise Unsupported("expected String, got %r" % (v,))


class TakeWhileIter:
    __slots__ = ("it", "clos", "done")

    def __init__(self, it, clos):
        self.it, self.clos, self.done = it, clos, False


class FilterMapIter:
    __slots__ = ("it", "clos")

    def __init__(self, it, clos):
        self.it, self.clos = it, clos


class FilterIter:
    __slots__ = ("it", "clos")

    def __init__(self, it, clos):
        self.it, self.clos = it, clos


class TakeN:
    __slots__ = ("it", "n")

    def __init__(self, it, n):
        self.it, self.n = it, n


class PeekIter:
    __slots__ = ("it", "buf")

    def __init__(self, it):
        self.it, self.buf = it, None  # buf: None = nothing peeked, else the Option already pulled


class ChainIter:
    __slots__ = ("a", "b")

    def __init__(self, a, b):
        self.a, self.b = a, b


class RevSliceIter:
    __slots__ = ("s", "i")

    def __init__(self, s):
        self.s, self.i = s, s.len


class MapIter:
    __slots__ = ("it", "clos")

    def __init__(self, it, clos):
        self.it, self.clos = it, clos


class CopiedIter:
    __slots__ = ("it",)

    def __init__(self, it):
        self.it = it


class ZipIter:
    __slots__ = ("a", "b")

    def __init__(self, a, b):
        self.a, self.b = a, b


class ValIter:
    __slots__ = ("v", "i")

    def __init__(self, v):
        self.v, self.i = v, 0


class RangeIncl:
    __slots__ = ("lo", "hi", "done")

    def __init__(self, lo, hi):
        self.lo, self.hi, self.done = lo, hi, False


def tmp_ref(v):
    return Ref(_HeapFrame([v]), 0, [("i", 0)])


def call_closure(I, clos, args, depth):
    clos_v = deref(I, clos)
    if not (isinstance(clos_v, Adt) and clos_v.path.startswith("closure:")):
        if isinstance(clos_v, tuple) and clos_v and clos_v[0] == "fnitem":
            k = clos_v[1]
            name = I.P.norm(k.get("r", k["fn"]), False)
            return I.dispatch(None, name, name, k, list(args), depth + 1)
        raise Unsupported("call of non-closure %r" % (clos_v,))
    cid = clos_v.path[len("closure:"):]
    body = I.P.fns.get(cid) or I.P.fns.get("bin::" + cid)
    if body is None:
        raise Unsupported("closure body %s not found" % cid)
    first = clos if isinstance(clos, Ref) else tmp_ref(clos_v)
    if not body.locals[1].startswith("&"):
        first = clos_v
    # adapt by-reference / by-value to what the closure's parameters declare (`|&b|` vs `|b|`)
    args = list(args)
    if body.nargs == len(args) + 1:
        for i_, a_ in enumerate(args):
            pty = body.locals[2 + i_]
            # peel surplus reference levels (`all(|b| ..)` over `slice.iter()` gets `&u8`, not `&&u8`)
            want_ = len(pty) - len(pty.lstrip("&")) if not pty.startswith("&mut") else 1
            for _ in range(3):
                if isinstance(a_, Ref) and isinstance(deref(I, a_), Ref):
                    depth_ = 1
                    t_ = deref(I, a_)
                    while isinstance(t_, Ref):
                        depth_ += 1
                        t_ = deref(I, t_)
                    if depth_ > max(want_, 1):
                        a_ = deref(I, a_)
                        args[i_] = a_
                        continue
                break
            if isinstance(a_, Ref) and not pty.startswith(("&", "*")) and not isinstance(deref(I, a_), Ref):
                v_ = deref(I, a_)
                if isinstance(v_, (int, float)):
                    args[i_] = v_
            elif not isinstance(a_, Ref) and pty.startswith("&") and isinstance(a_, int):
                args[i_] = tmp_ref(a_)
    return I.run(body, [first] + args, depth + 1, getattr(clos_v, "gen", None))


def iter_next(I, it, depth):
    """Advance a modelled iterator; returns Option Adt."""
    it = deref(I, it)
    if isinstance(it, RangeIter):
        if it.cur < it.end:
            v = it.cur
            it.cur += 1
            return some(v)
        return NONE()
    if isinstance(it, RangeIncl):
        if not it.done and it.lo <= it.hi:
            v = it.lo
            if it.lo == it.hi:
                it.done = True
            else:
                it.lo += 1
            return some(v)
        return NONE()
    if isinstance(it, SliceIter):
        if it.i < it.s.len:
            i = it.i
            it.i += 1
            return some(ElemRef(it.s, i))
        return NONE()
    if isinstance(it, EnumIter):
        r = iter_next(I, it.it, depth)
        if r.vi == 0:
            return r
        i = it.i
        it.i += 1
        return some([i, r.fields[0]])
    if isinstance(it, CharsIter):
        s_ = it.s
        if it.i >= s_.len:
            return NONE()
        raw = bytes(s_.heap[s_.start + it.i:s_.start + min(it.i + 4, s_.len)])
        b0 = raw[0]
        n = 1 if b0 < 0x80 else 2 if b0 < 0xE0 else 3 if b0 < 0xF0 else 4
        ch = raw[:n].decode("utf-8", "surrogatepass")
        it.i += n
        return some(ord(ch))
    if isinstance(it, TakeN):
        if it.n <= 0:
            return NONE()
        it.n -= 1
        return iter_next(I, it.it, depth)
    if isinstance(it, PeekIter):
        if it.buf is not None:
            r, it.buf = it.buf, None
            return r
        return iter_next(I, it.it, depth)
    if isinstance(it, ChainIter):
        if it.a is not None:
            r = iter_next(I, it.a, depth)
            if r.vi == 1:
                return r
            it.a = None
        return iter_next(I, it.b, depth)
    if isinstance(it, RevSliceIter):
        if it.i <= 0:
            return NONE()
        it.i -= 1
        return some(ElemRef(it.s, it.i))
    if isinstance(it, MapIter):
        r = iter_next(I, it.it, depth)
        if r.vi == 0:
            return r
        return some(call_closure(I, it.clos, [r.fields[0]], depth))
    if isinstance(it, CopiedIter):
        r = iter_next(I, it.it, depth)
        if r.vi == 0:
            return r
        return some(deref(I, r.fields[0]))
    if isinstance(it, ZipIter):
        ra = iter_next(I, it.a, depth)
        if ra.vi == 0:
            return ra
        rb = iter_next(I, it.b, depth)
        if rb.vi == 0:
            return rb
        return some([ra.fields[0], rb.fields[0]])
    if isinstance(it, FilterMapIter):
        while True:
            r = iter_next(I, it.it, depth)
            if r.vi == 0:
                return r
            o_ = call_closure(I, it.clos, [r.fields[0]], depth)
            if o_.vi == 1:
                return o_
    if isinstance(it, FilterIter):
        while True:
            r = iter_next(I, it.it, depth)
            if r.vi == 0:
                return r
            if call_closure(I, it.clos, [tmp_ref(r.fields[0])], depth):
                return r
    if isinstance(it, TakeWhileIter):
        if it.done:
            return NONE()
        r = iter_next(I, it.it, depth)
        if r.vi == 0:
            return r
        if call_closure(I, it.clos, [tmp_ref(r.fields[0])], depth):
            return r
        it.done = True
        return NONE()
    if isinstance(it, ValIter):
        if it.i < len(it.v):
            it.i += 1
            return some(it.v[it.i - 1])
        return NONE()
    if isinstance(it, WindowsIter):
        if it.i + it.n <= it.s.len:
            sl = Slice(it.s.heap, it.s.start + it.i, it.n, it.s.esz)
            it.i += 1
            return some(sl)
        return NONE()
    if isinstance(it, ChunksIter):
        if it.i + it.n <= it.s.len:
            sl = Slice(it.s.heap, it.s.start + it.i, it.n, it.s.esz)
            it.i += it.n
            return some(sl)
        if not it.exact and it.i < it.s.len:
            sl = Slice(it.s.heap, it.s.start + it.i, it.s.len - it.i, it.s.esz)
            it.i = it.s.len
            return some(sl)
        return NONE()
    if isinstance(it, MapVal):
        raise Unsupported("next() on a map value (iterate it through into_iter)")
    if isinstance(it, Ref):
        tgt_ = deref(I, it)
        if isinstance(tgt_, Adt) and not tgt_.path.startswith(("core::", "std::", "alloc::", "model::")):
            # crate iterator behind `&mut`: its `next` may replace `*self`, so hand it the reference itself
            return _crate_next(I, tgt_, it, depth)
        return iter_next(I, tgt_, depth)
    if isinstance(it, Adt) and not it.path.startswith(("core::", "std::", "alloc::", "model::")):
        return _crate_next(I, it, None, depth)
    raise Unsupported("next() on %r" % (it,))


def default_of(I, ty, depth):
    """`<T as Default>::default()` for std types (crate types have their own MIR and never get here)."""
    t = ty.strip()
    if t in INT_TYPES or t == "bool" or t == "char":
        return 0
    if t in ("f64", "f32"):
        return 0.0
    if t.startswith(("std::vec::Vec<", "alloc::vec::Vec<")):
        return []
    if t in ("std::string::String", "alloc::string::String"):
        return StrBuf([])
    if t.startswith(("std::option::Option<", "core::option::Option<")):
        return NONE()
    if "BTreeMap<" in t or "HashMap<" in t or "IndexMap<" in t:
        return MapVal("BTreeMap<" in t)
    if t.startswith("&") and ("str" in t or "[" in t):
        return Slice([], 0, 0, 1)
    if t == "()":
        return []
    body = I.P.fns.get(I.P.norm("<%s as std::default::Default>::default" % t, False))
    if body is not None:
        return I.run(body, [], depth + 1)
    raise Unsupported("Default::default for %r" % (ty,))


def _hold(it):
    """An adaptor owns its source iterator; a crate iterator's `next` may assign `*self`, so the
    adaptor keeps it in a private cell and hands out `&mut` to that cell."""
    if isinstance(it, Adt) and not it.path.startswith(("core::", "std::", "alloc::", "model::")):
        return tmp_ref(it)
    return it


def _crate_next(I, it, ref, depth):
    if True:
        # an iterator type of the crate: run its own `Iterator::next`
        idx = getattr(I.P, "_next_index", None)
        if idx is None:
            idx = {}
            for fid_ in I.P.fns:
                m_ = re.match(r"^<([A-Za-z0-9_:]+)(<.*>)? as std::iter::Iterator>::next$", fid_)
                if m_:
                    idx.setdefault(m_.group(1), []).append(fid_)
            I.P._next_index = idx
        c_ = idx.get(it.path, [])
        if len(c_) == 1:
            if ref is None:
                # held by value by a consumer (`collect`, `any`, `find`): run `next` on a cell and write
                # the new state back into the same object, so the consumer's next call sees it
                cell = tmp_ref(it)
                r_ = I.run(I.P.fns[c_[0]], [cell], depth + 1)
                new_ = cell.frame.locals[0][0]
                if new_ is not it and isinstance(new_, Adt):
                    it.path, it.vi, it.vname, it.fields = new_.path, new_.vi, new_.vname, new_.fields
                return r_
            return I.run(I.P.fns[c_[0]], [ref], depth + 1)
    raise Unsupported("next() on %r" % (it,))


NONE = lambda: Adt("core::option::Option", 0, "None", [])  # noqa: E731


def s8(x):
    x &= 0xFF
    return x - 256 if x & 0x80 else x


def lanes(v, n=None):
    if not isinstance(v, Vec):
        raise Unsupported("expected SIMD vector, got %r" % (v,))
    return v.b


def lanewise(f, *vs):
    return Vec([f(*xs) & 0xFF for xs in zip(*[lanes(v) for v in vs])])


def from_words(words, wbytes):
    out = []
    for w in words:
        w &= (1 << (8 * wbytes)) - 1
        out.extend((w >> (8 * i)) & 0xFF for i in range(wbytes))
    return Vec(out)


def to_words(v, wbytes):
    b = lanes(v)
    return [sum(b[i + j] << (8 * j) for j in range(wbytes)) for i in range(0, len(b), wbytes)]


def width_of(name):
    if name.startswith("_mm512"):
        return 64
    if name.startswith("_mm256"):
        return 32
    return 16


def intrinsic(I, short, args):
    n = width_of(short)
    op = re.sub(r"^_mm(256|512)?_", "", short)
    if op == "set1_epi8":
        return Vec([args[0] & 0xFF] * n)
    if op in ("setzero_si128", "setzero_si256", "setzero_si512"):
        return Vec([0] * n)
    if op in ("setr_epi8",):
        return Vec([a & 0xFF for a in args])
    if op in ("set_epi8",):
        return Vec([a & 0xFF for a in reversed(args)])
    if op == "set1_epi16":
        return from_words([args[0]] * (n // 2), 2)
    if op == "set1_epi32":
        return from_words([args[0]] * (n // 4), 4)
    if op in ("set1_epi64x",):
        return from_words([args[0]] * (n // 8), 8)
    if op == "cmpeq_epi8":
        return lanewise(lambda a, b: 0xFF if a == b else 0, *args)
    if op == "cmpgt_epi8":
        return lanewise(lambda a, b: 0xFF if s8(a) > s8(b) else 0, *args)
    if op == "cmplt_epi8":
        return lanewise(lambda a, b: 0xFF if s8(a) < s8(b) else 0, *args)
    if op in ("or_si128", "or_si256"):
        return lanewise(lambda a, b: a | b, *args)
    if op in ("and_si128", "and_si256"):
        return lanewise(lambda a, b: a & b, *args)
    if op in ("xor_si128", "xor_si256"):
        return lanewise(lambda a, b: a ^ b, *args)
    if op in ("andnot_si128", "andnot_si256"):
        return lanewise(lambda a, b: (~a) & b, *args)
    if op == "add_epi8":
        return lanewise(lambda a, b: a + b, *args)
    if op == "sub_epi8":
        return lanewise(lambda a, b: a - b, *args)
    if op == "adds_epu8":
        return lanewise(lambda a, b: min(a + b, 255), *args)
    if op == "subs_epu8":
        return lanewise(lambda a, b: max(a - b, 0), *args)
    if op == "min_epu8":
        return lanewise(min, *args)
    if op == "max_epu8":
        return lanewise(max, *args)
    if op == "movemask_epi8":
        b = lanes(args[0])
        m = sum(((x >> 7) & 1) << i for i, x in enumerate(b))
        return wrap(m, "i32")
    if op == "shuffle_epi8":
        a, idx = lanes(args[0]), lanes(args[1])
        out = []
        for i, x in enumerate(idx):
            base = (i // 16) * 16
            out.append(0 if x & 0x80 else a[base + (x & 0x0F)])
        return Vec(out)
    if op in ("srli_epi16", "slli_epi16", "srli_epi32", "slli_epi32", "srli_epi64", "slli_epi64"):
        wb = {"16": 2, "32": 4, "64": 8}[op[-2:]]
        sh = args[1]
        ws = to_words(args[0], wb)
        if sh >= 8 * wb:
            ws = [0] * len(ws)
        elif op.startswith("srli"):
            ws = [w >> sh for w in ws]
        else:
            ws = [(w << sh) for w in ws]
        return from_words(ws, wb)
    if op in ("alignr_epi8",):
        a, b, imm = lanes(args[0]), lanes(args[1]), args[2]
        out = []
        for lane in range(0, n, 16):
            cat = list(b[lane:lane + 16]) + list(a[lane:lane + 16])
            for i in range(16):
                j = i + imm
                out.append(cat[j] if j < 32 else 0)
        return Vec(out)
    if op in ("permute2x128_si256",):
        a, b, imm = lanes(args[0]), lanes(args[1]), args[2]

        def sel(c):
            if c & 8:
                return [0] * 16
            src = [a[0:16], a[16:32], b[0:16], b[16:32]][c & 3]
            return list(src)

        return Vec(sel(imm & 0xF) + sel((imm >> 4) & 0xF))
    if op in ("testz_si256", "testz_si128"):
        a, b = lanes(args[0]), lanes(args[1])
        return int(all((x & y) == 0 for x, y in zip(a, b)))
    if op in ("loadu_si128", "loadu_si256", "load_si128", "load_si256", "lddqu_si128", "lddqu_si256"):
        p = to_ptr(I, args[0])
        if isinstance(p, Vec):
            return p
        return Vec(p.load(n))
    if op in ("storeu_si128", "storeu_si256", "store_si128", "store_si256"):
        p = to_ptr(I, args[0])
        p.store(list(lanes(args[1])))
        return []
    if op in ("sad_epu8",):
        a, b = lanes(args[0]), lanes(args[1])
        out = []
        for i in range(0, n, 8):
            s = sum(abs(x - y) for x, y in zip(a[i:i + 8], b[i:i + 8]))
            out.extend([s & 0xFF, (s >> 8) & 0xFF, 0, 0, 0, 0, 0, 0])
        return Vec(out)
    if op in ("extract_epi64",):
        ws = to_words(args[0], 8)
        return wrap(ws[args[1]], "i64")
    if op in ("castsi256_si128",):
        return Vec(lanes(args[0])[:16])
    if op in ("extracti128_si256",):
        b = lanes(args[0])
        return Vec(b[16:32] if args[1] & 1 else b[0:16])
    raise Unsupported("x86 intrinsic %s" % short)


def to_ptr(I, p):
    if isinstance(p, Slice):
        return Ptr(p.heap, p.start * p.esz, p.esz, p.esz)
    if isinstance(p, Ref):
        v = I.read_path(p.frame, p.local, p.path)
        if isinstance(v, list):
            return Ptr(v, 0, 1, 1)
        if isinstance(v, Vec):
            return v
    if not isinstance(p, Ptr):
        raise Unsupported("expected pointer, got %r" % (p,))
    return p


def call(I, fr, name, fname, k, args, depth):
    short = name.rsplit("::", 1)[-1]
    if "fmt::" in name or "ToString" in name or "io::Write" in name or name.endswith("io::_eprint") or name.endswith("io::_print"):
        from . import fmtmodel

        try:
            handled, val = fmtmodel.call(I, fr, name, fname, k, args, depth)
        except Unsupported:
            # a value the fmt model cannot print (Debug of a crate type in an error message, ...):
            # the text becomes an opaque string, as before the model existed; a rule that needs
            # the text then fails closed when it looks at it
            import os as _os

            if (name.endswith("fmt::format") or "to_string" in name) and not _os.environ.get("VERIF_FMT_STRICT"):
                return Opaque("string")
            raise
        if handled:
            return val
    # ---- x86 intrinsics
    if "arch::x86_64::_mm" in name or "arch::x86::_mm" in name:
        cg = [int(x) for x in k.get("g", []) if re.fullmatch(r"-?\d+", x.strip())]
        return intrinsic(I, short, list(args) + cg)
    if name.endswith("arch::x86_64::_pdep_u64"):
        a, mask = args[0] & (2**64 - 1), args[1] & (2**64 - 1)
        out, j = 0, 0
        for i in range(64):
            if (mask >> i) & 1:
                if (a >> j) & 1:
                    out |= 1 << i
                j += 1
        return out
    # ---- iteration
    if fname.endswith("IntoIterator>::into_iter") or name.endswith("IntoIterator>::into_iter") or name.endswith("::into_iter"):
        v = args[0]
        if isinstance(v, Slice):
            return SliceIter(v)
        if isinstance(v, SetVal):
            return ValIter([k0 for k0, _v0 in v.items()])
        if isinstance(v, Ref) and isinstance(I.read_path(v.frame, v.local, v.path), SetVal):
            return ValIter([tmp_ref(k0) for k0, _v0 in I.read_path(v.frame, v.local, v.path).items()])
        if isinstance(v, MapVal):
            return ValIter([[k0, v0] for k0, v0 in v.items()])
        if isinstance(v, Ref):
            t = I.read_path(v.frame, v.local, v.path)
            if isinstance(t, list):
                return SliceIter(Slice(t, 0, len(t)))
            if isinstance(t, Slice):
                return SliceIter(t)
            if isinstance(t, MapVal):
                return ValIter([[tmp_ref(k0), tmp_ref(v0)] for k0, v0 in t.items()])
        if isinstance(v, list):
            return ValIter(list(v))
        return v
    if name.endswith("Iterator>::next") or name.endswith("Iterator::next") or (name.endswith("::next") and ("Range" in name or "slice::" in name or "Enumerate" in name)):
        return iter_next(I, args[0], depth)
    if name.endswith("DoubleEndedIterator>::next_back") or name.endswith("DoubleEndedIterator::next_back"):
        it_ = deref(I, args[0]) if isinstance(args[0], Ref) else args[0]
        if isinstance(it_, ValIter):
            if it_.i >= len(it_.v):
                return NONE()
            return some(it_.v.pop())
        raise Unsupported("next_back on %r" % (it_,))
    if name.endswith("Iterator::enumerate"):
        return EnumIter(_hold(args[0]))
    if name.endswith("Iterator::collect") or name.endswith("Iterator>::collect"):
        g = k.get("g") or []
        tgt = g[-1] if g else ""
        items = []
        while True:
            r = iter_next(I, args[0], depth)
            if r.vi == 0:
                break
            items.append(r.fields[0])
        if tgt.startswith("std::vec::Vec<") or tgt.startswith("alloc::vec::Vec<"):
            return items
        if "BTreeMap<" in tgt or "HashMap<" in tgt or "IndexMap<" in tgt:
            from .minimir import freeze as _fz

            m = MapVal("BTreeMap<" in tgt)
            for it_ in items:
                kk = deref(I, it_[0])
                m.d[_fz(kk)] = [it_[0], it_[1]]
            return m
        if tgt.endswith("string::String"):
            b_ = []
            for it_ in items:
                it_ = deref(I, it_)
                if isinstance(it_, int):
                    b_ += list(chr(it_).encode("utf-8"))
                else:
                    sl_ = as_slice(I, it_)
                    b_ += sl_.heap[sl_.start:sl_.start + sl_.len]
            return StrBuf(b_)
        mm = re.match(r"^(?:std|core)::result::Result<(?:std|alloc)::vec::Vec<.*>, .*>$", tgt)
        if mm:
            vals = []
            for it_ in items:
                if it_.vname == "Err":
                    return it_
                vals.append(it_.fields[0])
            return ok(vals)
        mm = re.match(r"^(?:std|core)::option::Option<(?:std|alloc)::vec::Vec<.*>>$", tgt)
        if mm:
            vals = []
            for it_ in items:
                if it_.vi == 0:
                    return it_
                vals.append(it_.fields[0])
            return some(vals)
        raise Unsupported("collect into %s" % tgt)
    if name.endswith("Iterator::take_while"):
        return TakeWhileIter(_hold(args[0]), args[1])
    if name.endswith("Iterator::filter"):
        return FilterIter(_hold(args[0]), args[1])
    if name.endswith("Iterator::filter_map"):
        return FilterMapIter(_hold(args[0]), args[1])
    if name.endswith("Iterator::flatten") and isinstance(args[0], (ValIter,)):
        flat_ = []
        for x in args[0].v[args[0].i:]:
            if isinstance(x, Adt) and x.path.endswith("Option"):
                if x.vi == 1:
                    flat_.append(x.fields[0])
            elif isinstance(x, list):
                flat_.extend(x)
            else:
                raise Unsupported("Iterator::flatten over %r" % (x,))
        return ValIter(flat_)
    if name.endswith("Iterator::count") or name.endswith("Iterator>::count"):
        n = 0
        while iter_next(I, args[0], depth).vi == 1:
            n += 1
        return n
    if name.endswith("Iterator::find") or name.endswith("Iterator>::find"):
        while True:
            r = iter_next(I, args[0], depth)
            if r.vi == 0:
                return r
            if call_closure(I, args[1], [tmp_ref(r.fields[0])], depth):
                return r
    if name.endswith("Iterator::skip"):
        it = args[0]
        for _ in range(args[1]):
            if iter_next(I, it, depth).vi == 0:
                break
        return it

    if re.search(r"cmp::impls::<impl (?:std|core)::cmp::(Ord|PartialOrd) for (\w+)>::(cmp|partial_cmp|lt|le|gt|ge)$", name) or name.endswith("<impl f64>::total_cmp") or name.endswith("<impl f64>::partial_cmp"):
        a_, b_ = deref(I, args[0]), deref(I, args[1])
        for _ in range(2):
            if isinstance(a_, Ref):
                a_ = deref(I, a_)
            if isinstance(b_, Ref):
                b_ = deref(I, b_)
        meth_ = name.rsplit("::", 1)[-1]
        if isinstance(a_, float) or isinstance(b_, float):
            if meth_ == "total_cmp":
                import struct as _st

                ka = _st.unpack("<q", _st.pack("<d", float(a_)))[0]
                kb = _st.unpack("<q", _st.pack("<d", float(b_)))[0]
                ka ^= (ka >> 63) & 0x7FFFFFFFFFFFFFFF
                kb ^= (kb >> 63) & 0x7FFFFFFFFFFFFFFF
                c_ = (ka > kb) - (ka < kb)
                return Adt("core::cmp::Ordering", c_ + 1, ["Less", "Equal", "Greater"][c_ + 1], [])
            if a_ != a_ or b_ != b_:
                if meth_ == "partial_cmp":
                    return NONE()
                return 0
        c_ = (a_ > b_) - (a_ < b_)
        ordv = Adt("core::cmp::Ordering", c_ + 1, ["Less", "Equal", "Greater"][c_ + 1], [])
        if meth_ == "cmp":
            return ordv
        if meth_ == "partial_cmp":
            return some(ordv)
        return int({"lt": c_ < 0, "le": c_ <= 0, "gt": c_ > 0, "ge": c_ >= 0}[meth_])
    if re.search(r"^<std::vec::Vec<T, A> as std::cmp::(Ord|PartialOrd<std::vec::Vec<T, A2>>|PartialOrd)>::(cmp|partial_cmp)$", name) or re.search(r"^<\[T\] as std::cmp::(Ord|PartialOrd)>::(cmp|partial_cmp)$", name) or name.endswith("slice::cmp::<impl std::cmp::Ord for [T]>::cmp") or name.endswith("slice::cmp::<impl std::cmp::PartialOrd for [T]>::partial_cmp"):
        la, lb = as_slice(I, args[0]), as_slice(I, args[1])
        res_ = 0
        for i_ in range(min(la.len, lb.len)):
            xa, xb = la.heap[la.start + i_], lb.heap[lb.start + i_]
            for _ in range(3):
                if isinstance(xa, Ref):
                    xa = deref(I, xa)
                if isinstance(xb, Ref):
                    xb = deref(I, xb)
            if isinstance(xa, (StrBuf, Slice)) and isinstance(xb, (StrBuf, Slice)):
                sa_, sb_ = as_slice(I, xa), as_slice(I, xb)
                ka, kb = bytes(sa_.heap[sa_.start:sa_.start + sa_.len]), bytes(sb_.heap[sb_.start:sb_.start + sb_.len])
            elif isinstance(xa, (int, float)) and isinstance(xb, (int, float)):
                ka, kb = xa, xb
            else:
                raise Unsupported("lexicographic comparison of %r" % (xa,))
            if ka != kb:
                res_ = -1 if ka < kb else 1
                break
        if res_ == 0:
            res_ = (la.len > lb.len) - (la.len < lb.len)
        ordv = Adt("core::cmp::Ordering", res_ + 1, ["Less", "Equal", "Greater"][res_ + 1], [])
        return ordv if name.endswith("::cmp") else some(ordv)
    if name.endswith("Iterator>::find_map") or name.endswith("Iterator::find_map"):
        while True:
            r_ = iter_next(I, args[0], depth)
            if r_.vi == 0:
                return r_
            o_ = call_closure(I, args[1], [r_.fields[0]], depth)
            if o_.vi == 1:
                return o_
    if name.endswith("Iterator>::try_fold") or name.endswith("Iterator::try_fold"):
        acc = args[1]
        while True:
            r_ = iter_next(I, args[0], depth)
            if r_.vi == 0:
                break
            cf = call_closure(I, args[2], [acc, r_.fields[0]], depth)
            # R: Try — Result / Option / ControlFlow
            if isinstance(cf, Adt) and (cf.vname in ("Err", "None", "Break")):
                return cf
            acc = cf.fields[0] if isinstance(cf, Adt) and cf.fields else acc
        g_ = k.get("g") or []
        rty = g_[-1] if g_ else ""
        if "Result<" in rty:
            return ok(acc)
        if "Option<" in rty:
            return some(acc)
        if "ControlFlow<" in rty:
            return cf_continue(acc)
        raise Unsupported("try_fold returning %s" % rty)
    if name.endswith("cmp::Ordering::reverse"):
        o_ = args[0]
        return Adt("core::cmp::Ordering", 2 - o_.vi, ["Less", "Equal", "Greater"][2 - o_.vi], [])
    if name.endswith("cmp::Ordering::then") or name.endswith("cmp::Ordering::then_with"):
        o_ = args[0]
        if o_.vi != 1:
            return o_
        return args[1] if name.endswith("::then") else call_closure(I, args[1], [], depth)
    if name.endswith("cmp::Ordering::is_lt") or name.endswith("cmp::Ordering::is_le") or name.endswith("cmp::Ordering::is_gt") or name.endswith("cmp::Ordering::is_ge") or name.endswith("cmp::Ordering::is_eq") or name.endswith("cmp::Ordering::is_ne"):
        c_ = args[0].vi - 1
        return int({"is_lt": c_ < 0, "is_le": c_ <= 0, "is_gt": c_ > 0, "is_ge": c_ >= 0, "is_eq": c_ == 0, "is_ne": c_ != 0}[name.rsplit("::", 1)[-1]])
    if name.endswith("slice::<impl [T]>::sort_by") or name.endswith("slice::<impl [T]>::sort_unstable_by") or name.endswith("slice::<impl [T]>::sort_by_key") or name.endswith("slice::<impl [T]>::sort_unstable_by_key") or name.endswith("slice::<impl [T]>::sort_by_cached_key"):
        import functools

        sl = as_slice(I, args[0])
        vals = sl.heap[sl.start:sl.start + sl.len]
        if name.endswith("_key"):
            from .minimir import freeze as _fz

            keyed = [(_fz(call_closure(I, args[1], [tmp_ref(x)], depth)), i_, x) for i_, x in enumerate(vals)]
            try:
                keyed.sort(key=lambda t_: (t_[0], t_[1]))
            except TypeError:
                raise Unsupported("sort_by_key with non-scalar keys")
            vals = [t_[2] for t_ in keyed]
        else:
            def cmpf(x, y):
                o_ = call_closure(I, args[1], [tmp_ref(x), tmp_ref(y)], depth)
                return o_.vi - 1

            vals = sorted(vals, key=functools.cmp_to_key(cmpf))
        sl.heap[sl.start:sl.start + sl.len] = vals
        return []
    if name.endswith("slice::<impl [T]>::binary_search_by") or name.endswith("slice::<impl [T]>::binary_search_by_key") or name.endswith("slice::<impl [T]>::binary_search"):
        sl = as_slice(I, args[0])
        lo_, hi_ = 0, sl.len
        while lo_ < hi_:
            mid_ = (lo_ + hi_) // 2
            el_ = ElemRef(sl, mid_)
            if name.endswith("binary_search_by"):
                c_ = call_closure(I, args[1], [el_], depth).vi - 1
            elif name.endswith("binary_search_by_key"):
                kv_ = call_closure(I, args[2], [el_], depth)
                tgt_ = deref(I, args[1])
                c_ = (kv_ > tgt_) - (kv_ < tgt_)
            else:
                ev_, tgt_ = deref(I, el_), deref(I, args[1])
                c_ = (ev_ > tgt_) - (ev_ < tgt_)
            if c_ == 0:
                return ok(mid_)
            if c_ < 0:
                lo_ = mid_ + 1
            else:
                hi_ = mid_
        return err(lo_)
    if name.endswith("rc::Rc::<T, A>::make_mut") or name.endswith("sync::Arc::<T, A>::make_mut") or name.endswith("rc::Rc::<T, A>::get_mut"):
        b_ = deref(I, args[0])
        if b_.rc > 1:
            if not name.endswith("make_mut"):
                return NONE()
            # possibly shared (drops are not tracked, so this may copy when the real code would not: harmless)
            import copy as _cp
            from .minimir import UninitBox as _UB

            nb_ = _UB(_cp.deepcopy(b_.cell[0]), True)
            I.write_ref(args[0], nb_)
            b_ = nb_
        r_ = Ref(_HeapFrame(b_.cell), 0, [("i", 0)])
        return r_ if name.endswith("make_mut") else some(r_)
    if name.endswith("rc::Rc::<T, A>::strong_count") or name.endswith("rc::Rc::<T, A>::ptr_eq"):
        raise Unsupported(name)
    if name.endswith("rc::Rc::<T>::new") or name.endswith("sync::Arc::<T>::new"):
        from .minimir import UninitBox as _UB

        return _UB(args[0], True)
    if (name.endswith("as std::clone::Clone>::clone") or name.endswith("as core::clone::Clone>::clone")) and ("rc::Rc<" in name or "sync::Arc<" in name):
        h_ = deref(I, args[0])
        h_.rc += 1
        return h_  # shared ownership: the same cell
    if (name.endswith("as std::ops::Deref>::deref") or name.endswith("as core::ops::Deref>::deref")) and ("rc::Rc<" in name or "sync::Arc<" in name or "boxed::Box<" in name):
        b_ = deref(I, args[0])
        return Ref(_HeapFrame(b_.cell), 0, [("i", 0)])
    if name.endswith("slice::<impl [T]>::sort_unstable") or name.endswith("slice::<impl [T]>::sort"):
        sl = as_slice(I, args[0])
        vals = sl.heap[sl.start:sl.start + sl.len]
        if not all(isinstance(x, int) for x in vals):
            from .minimir import freeze as _fz

            try:
                vals = sorted(vals, key=_fz)
            except TypeError:
                raise Unsupported("sort of non-scalar elements")
        else:
            vals = sorted(vals)
        sl.heap[sl.start:sl.start + sl.len] = vals
        return []
    if name.endswith("slice::<impl [T]>::split_first") or name.endswith("slice::<impl [T]>::split_last"):
        sl = as_slice(I, args[0])
        if sl.len == 0:
            return NONE()
        if name.endswith("split_first"):
            return some([ElemRef(sl, 0), Slice(sl.heap, sl.start + 1, sl.len - 1, sl.esz)])
        return some([ElemRef(sl, sl.len - 1), Slice(sl.heap, sl.start, sl.len - 1, sl.esz)])
    if name.endswith("slice::<impl [T]>::first") or name.endswith("slice::<impl [T]>::last"):
        sl = as_slice(I, args[0])
        if sl.len == 0:
            return NONE()
        return some(ElemRef(sl, 0 if name.endswith("first") else sl.len - 1))
    if name.endswith("iter::Extend<T>>::extend") or name.endswith("vec::Vec::<T, A>::extend") or name.endswith("Extend::extend"):
        v = deref(I, args[0])
        src = args[1]
        if isinstance(v, list):
            if isinstance(src, list):
                v.extend(src)
                return []
            if isinstance(src, Slice) or (isinstance(src, Ref) and isinstance(deref(I, src), (list, Slice))):
                s_ = as_slice(I, src)
                v.extend(s_.heap[s_.start:s_.start + s_.len])
                return []
            while True:
                r_ = iter_next(I, src, depth)
                if r_.vi == 0:
                    break
                v.append(r_.fields[0])
            return []
        if isinstance(v, StrBuf):
            while True:
                r_ = iter_next(I, src, depth)
                if r_.vi == 0:
                    break
                x_ = deref(I, r_.fields[0])
                if isinstance(x_, int):
                    v.b.extend(chr(x_).encode("utf-8", "surrogatepass"))
                else:
                    s_ = as_slice(I, x_)
                    v.b.extend(s_.heap[s_.start:s_.start + s_.len])
            return []
        raise Unsupported("extend of %r" % (v,))
    if name.endswith("ExactSizeIterator::len") or name.endswith("ExactSizeIterator>::len"):
        it = deref(I, args[0])
        if isinstance(it, SliceIter):
            return it.s.len - it.i if hasattr(it, "i") else it.s.len
        if isinstance(it, ValIter):
            return len(it.v) - it.i
        if isinstance(it, RangeIter):
            return max(0, it.end - it.cur)
        raise Unsupported("ExactSizeIterator::len on %r" % (it,))
    m_ops = re.search(r"^<(\w+) as std::ops::(Add|Sub|Mul|Div|Rem|BitAnd|BitOr|BitXor)<&?\w+>>::(\w+)$", name) or re.search(r"^<&(\w+) as std::ops::(Add|Sub|Mul|Div|Rem|BitAnd|BitOr|BitXor)<&?\w+>>::(\w+)$", name)
    if m_ops and m_ops.group(1) in INT_TYPES:
        a_, b_ = deref(I, args[0]), deref(I, args[1])
        if isinstance(a_, Ref):
            a_ = deref(I, a_)
        if isinstance(b_, Ref):
            b_ = deref(I, b_)
        op_ = m_ops.group(2)
        ty_ = m_ops.group(1)
        if op_ in ("Div", "Rem") and b_ == 0:
            raise Panic("attempt to divide by zero")
        r_ = {"Add": lambda: a_ + b_, "Sub": lambda: a_ - b_, "Mul": lambda: a_ * b_, "Div": lambda: (abs(a_) // abs(b_)) * (1 if (a_ >= 0) == (b_ >= 0) else -1),
              "Rem": lambda: a_ - b_ * ((abs(a_) // abs(b_)) * (1 if (a_ >= 0) == (b_ >= 0) else -1)), "BitAnd": lambda: a_ & b_, "BitOr": lambda: a_ | b_, "BitXor": lambda: a_ ^ b_}[op_]()
        from .minimir import wrap as _wrap

        return _wrap(r_, ty_)
    if name.endswith("option::Option::<(T, U)>::unzip"):
        o = args[0]
        return [some(o.fields[0][0]), some(o.fields[0][1])] if o.vi == 1 else [NONE(), NONE()]
    if name.endswith("slice::<impl [T]>::reverse"):
        sl = as_slice(I, args[0])
        sl.heap[sl.start:sl.start + sl.len] = sl.heap[sl.start:sl.start + sl.len][::-1]
        return []
    if name.endswith("slice::<impl [T]>::swap"):
        sl = as_slice(I, args[0])
        a_, b_ = args[1], args[2]
        if not (0 <= a_ < sl.len and 0 <= b_ < sl.len):
            raise Panic("slice::swap index out of bounds")
        sl.heap[sl.start + a_], sl.heap[sl.start + b_] = sl.heap[sl.start + b_], sl.heap[sl.start + a_]
        return []
    if name.endswith("vec::Vec::<T, A>::dedup") or name.endswith("vec::Vec::<T, A>::dedup_by") or name.endswith("vec::Vec::<T, A>::dedup_by_key"):
        v = deref(I, args[0])
        from .minimir import freeze as _fz

        out_ = []
        for x in v:
            if out_:
                if name.endswith("::dedup"):
                    same_ = _fz(out_[-1]) == _fz(x)
                elif name.endswith("dedup_by_key"):
                    same_ = _fz(call_closure(I, args[1], [tmp_ref(out_[-1])], depth)) == _fz(call_closure(I, args[1], [tmp_ref(x)], depth))
                else:
                    same_ = bool(call_closure(I, args[1], [tmp_ref(x), tmp_ref(out_[-1])], depth))
                if same_:
                    continue
            out_.append(x)
        v[:] = out_
        return []
    if name.endswith("slice::<impl [T]>::windows"):
        if args[1] == 0:
            raise Panic("windows(0)")
        return WindowsIter(as_slice(I, args[0]), args[1])
    if name.endswith("slice::<impl [T]>::chunks_exact"):
        return ChunksIter(as_slice(I, args[0]), args[1])
    if name.endswith("slice::<impl [T]>::chunks"):
        return ChunksIter(as_slice(I, args[0]), args[1], exact=False)
    if name.endswith("Iterator>::position") or name.endswith("Iterator::position"):
        i = 0
        while True:
            r = iter_next(I, args[0], depth)
            if r.vi == 0:
                return NONE()
            if call_closure(I, args[1], [r.fields[0]], depth):
                return some(i)
            i += 1
    if name.endswith("Iterator>::any") or name.endswith("Iterator::any") or name.endswith("Iterator>::all") or name.endswith("Iterator::all"):
        want_any = name.endswith("any")
        while True:
            r = iter_next(I, args[0], depth)
            if r.vi == 0:
                return int(not want_any)
            v = call_closure(I, args[1], [r.fields[0]], depth)
            if want_any and v:
                return 1
            if not want_any and not v:
                return 0
    if name.endswith("ops::RangeInclusive::<Idx>::new"):
        return RangeIncl(args[0], args[1])
    if name.endswith("ops::RangeInclusive::<Idx>::contains") or name.endswith("ops::Range::<Idx>::contains"):
        r = deref(I, args[0])
        x = deref(I, args[1])
        if isinstance(r, RangeIncl):
            return int(r.lo <= x <= r.hi)
        if isinstance(r, RangeIter):
            return int(r.cur <= x < r.end)
        raise Unsupported("contains on %r" % (r,))
    if name.endswith("ops::Try>::branch") or fname.endswith("ops::Try::branch"):
        v = args[0]
        if isinstance(v, Adt) and v.path.endswith("Option"):
            return cf_continue(v.fields[0]) if v.vi == 1 else cf_break(NONE())
        if isinstance(v, Adt) and v.path.endswith("Result"):
            return cf_continue(v.fields[0]) if v.vi == 0 else cf_break(err(v.fields[0]))
        raise Unsupported("Try::branch on %r" % (v,))
    if "ops::FromResidual" in name and name.endswith("::from_residual") or fname.endswith("FromResidual::from_residual"):
        v = args[0]
        if isinstance(v, Adt) and v.path.endswith("Option"):
            return NONE()
        if isinstance(v, Adt) and v.path.endswith("Result"):
            return err(v.fields[0])
        raise Unsupported("from_residual on %r" % (v,))
    if name.endswith("slice::<impl [T]>::copy_from_slice"):
        dst, src = as_slice(I, args[0]), as_slice(I, args[1])
        if dst.len != src.len:
            raise Panic("copy_from_slice: length mismatch %d vs %d" % (dst.len, src.len))
        for i in range(src.len):
            dst.heap[dst.start + i] = src.heap[src.start + i]
        return []
    if name.endswith("slice::<impl [T]>::fill"):
        dst = as_slice(I, args[0])
        for i in range(dst.len):
            dst.heap[dst.start + i] = args[1]
        return []
    if name.endswith("slice::<impl [T]>::first"):
        s_ = as_slice(I, args[0])
        return some(ElemRef(s_, 0)) if s_.len else NONE()
    if name.endswith("slice::<impl [T]>::last"):
        s_ = as_slice(I, args[0])
        return some(ElemRef(s_, s_.len - 1)) if s_.len else NONE()
    if name.endswith("slice::<impl [T]>::starts_with"):
        a, b = as_slice(I, args[0]), as_slice(I, args[1])
        return int(a.len >= b.len and a.heap[a.start:a.start + b.len] == b.heap[b.start:b.start + b.len])
    if name.endswith("option::Option::<&T>::copied") or name.endswith("option::Option::<&T>::cloned"):
        o = args[0]
        return some(deref(I, o.fields[0])) if o.vi == 1 else o
    if name.endswith("option::Option::<T>::unwrap") or name.endswith("option::Option::<T>::expect"):
        o = args[0]
        if o.vi != 1:
            raise Panic("unwrap on None")
        return o.fields[0]
    if name.endswith("result::Result::<T, E>::unwrap") or name.endswith("result::Result::<T, E>::expect"):
        o = args[0]
        if o.vi != 0:
            raise Panic("unwrap on Err")
        return o.fields[0]
    if name.endswith("result::Result::<T, E>::is_ok"):
        return int(deref(I, args[0]).vi == 0)
    if name.endswith("result::Result::<T, E>::is_err"):
        return int(deref(I, args[0]).vi == 1)
    if name.endswith("result::Result::<T, E>::ok"):
        o = args[0]
        return some(o.fields[0]) if o.vi == 0 else NONE()
    if name.endswith("option::Option::<T>::map_or"):
        o = args[0]
        if o.vi == 0:
            return args[1]
        return call_closure(I, args[2], [o.fields[0]], depth)
    if name.endswith("bool::<impl bool>::then"):
        return some(call_closure(I, args[1], [], depth)) if args[0] else NONE()
    if name.endswith("bool::<impl bool>::then_some"):
        return some(args[1]) if args[0] else NONE()
    if name.endswith("cell::Cell<T> as std::default::Default>::default") or name.endswith("cell::Cell<T> as core::default::Default>::default"):
        g = k.get("g", [])
        inner = None
        if g:
            mm = re.match(r"^(?:std|core)::cell::Cell<(.*)>$", g[0])
            if mm:
                g = [mm.group(1)]
            cand = "<%s as std::default::Default>::default" % g[0]
            body = I.P.fns.get(I.P.norm(cand, False))
            if body is not None:
                inner = I.run(body, [], depth + 1)
            elif g[0] in INT_TYPES or g[0] == "bool":
                inner = 0
            elif g[0].startswith("std::option::Option<") or g[0].startswith("core::option::Option<"):
                inner = NONE()
        if inner is None:
            raise Unsupported("Cell::default for %r" % (g,))
        return Adt("core::cell::Cell", 0, "Cell", [inner])
    if name.endswith("cell::Cell::<T>::new"):
        return Adt("core::cell::Cell", 0, "Cell", [args[0]])
    if name.endswith("cell::Cell::<T>::get"):
        import copy

        return copy.deepcopy(deref(I, args[0]).fields[0])
    if name.endswith("cell::Cell::<T>::set"):
        deref(I, args[0]).fields[0] = args[1]
        return []
    if name.endswith("cell::Cell::<T>::replace"):
        c = deref(I, args[0])
        old_ = c.fields[0]
        c.fields[0] = args[1]
        return old_
    if name.endswith("sync::OnceLock::<T>::get_or_init") or name.endswith("sync::once_lock::OnceLock::<T>::get_or_init"):
        r = args[0]
        cell = deref(I, r)
        if not (isinstance(cell, Adt) and cell.path.endswith("OnceLock")):
            if r.path:
                raise Unsupported("OnceLock inside a structure")
            cell = Adt("std::sync::OnceLock", 0, "OnceLock", [NONE()])
            r.frame.locals[r.local] = cell
        if cell.fields[0].vi == 0:
            cell.fields[0] = some(call_closure(I, args[1], [], depth))
        return Ref(r.frame, r.local, list(r.path) + [("f", 0), ("f", 0)])
    if ("indexmap::IndexSet::<" in name or "indexmap::set::IndexSet::<" in name or "collections::BTreeSet::<" in name or "btree::set::BTreeSet::<" in name or "collections::HashSet::<" in name or "hash::set::HashSet::<" in name) and "::" in name:
        from .minimir import freeze as _fz

        meth = name.rsplit("::", 1)[-1]
        if meth in ("new", "with_capacity", "default"):
            return SetVal("BTreeSet" in name)
        st_ = deref(I, args[0])
        if not isinstance(st_, SetVal):
            raise Unsupported("set method %s on %r" % (name, st_))
        if meth == "insert":
            kv_ = deref(I, args[1])
            kz = _fz(kv_)
            if st_.sorted and not (isinstance(kv_, int) or (isinstance(kz, tuple) and len(kz) == 2 and kz[0] == "slice")):
                raise Unsupported("BTreeSet of %r: the order is the element type's Ord, not modelled" % (kv_,))
            if kz in st_.d:
                return 0
            st_.d[kz] = [args[1], []]
            return 1
        if meth == "contains":
            return int(_fz(deref(I, args[1])) in st_.d)
        if meth == "len":
            return len(st_.d)
        if meth == "is_empty":
            return int(not st_.d)
        if meth == "iter":
            return ValIter([tmp_ref(k0) for k0, _v0 in st_.items()])
        raise Unsupported("set method %s" % name)
    if ("collections::BTreeMap" in name or "collections::HashMap" in name or "btree::map::BTreeMap" in name or "hash::map::HashMap" in name or "indexmap::IndexMap" in name or "indexmap::map::IndexMap" in name) and "::" in name:
        from .minimir import freeze as _fz

        meth = name.rsplit("::", 1)[-1]
        is_bt = "BTreeMap" in name
        if meth == "clone" and args and isinstance(deref(I, args[0]), MapVal):
            src_ = deref(I, args[0])
            import copy as _cp

            m2 = MapVal(src_.sorted)
            m2.d = {kk: [_cp.deepcopy(p_[0]), _cp.deepcopy(p_[1])] for kk, p_ in src_.d.items()}
            return m2
        if "IndexMap" in name and meth in ("shift_remove", "swap_remove", "get_index", "get_full", "get_index_of", "sort_keys", "sort_unstable_keys", "extend", "retain", "pop", "first", "last", "iter_mut", "values_mut", "get_index_mut", "insert_full", "shift_remove_entry", "reserve", "shrink_to_fit", "truncate"):
            m = deref(I, args[0])
            if meth in ("shift_remove", "swap_remove"):
                k_ = _fz(deref(I, deref(I, args[1]) if isinstance(deref(I, args[1]), Ref) else args[1]))
                if meth == "swap_remove" and k_ in m.d and list(m.d.keys())[-1] != k_:
                    # the last entry takes the removed entry's position
                    its_ = list(m.d.items())
                    idx_ = [kk for kk, _p in its_].index(k_)
                    v_ = its_[idx_][1]
                    last_ = its_.pop()
                    its_[idx_] = last_
                    m.d.clear()
                    m.d.update(its_)
                    return some(v_[1])
                v_ = m.d.pop(k_, None)
                return some(v_[1]) if v_ else NONE()
            if meth == "get_index":
                its = list(m.d.values())
                if not (0 <= args[1] < len(its)):
                    return NONE()
                pr = its[args[1]]
                return some([Ref(_HeapFrame(pr), 0, [("i", 0)]), Ref(_HeapFrame(pr), 0, [("i", 1)])])
            if meth == "get_index_of":
                k_ = _fz(deref(I, deref(I, args[1]) if isinstance(deref(I, args[1]), Ref) else args[1]))
                ks_ = list(m.d.keys())
                return some(ks_.index(k_)) if k_ in m.d else NONE()
            if meth in ("sort_keys", "sort_unstable_keys"):
                items = sorted(m.d.items(), key=lambda kv: kv[0][1] if isinstance(kv[0], tuple) and len(kv[0]) == 2 and kv[0][0] == "slice" else kv[0])
                m.d = dict(items)
                return []
            if meth in ("reserve", "shrink_to_fit"):
                return []
            if meth in ("first", "last"):
                its = list(m.d.values())
                if not its:
                    return NONE()
                pr = its[0] if meth == "first" else its[-1]
                return some([Ref(_HeapFrame(pr), 0, [("i", 0)]), Ref(_HeapFrame(pr), 0, [("i", 1)])])
            if meth == "pop":
                if not m.d:
                    return NONE()
                k_ = list(m.d.keys())[-1]
                pr = m.d.pop(k_)
                return some([pr[0], pr[1]])
            if meth in ("iter_mut", "values_mut"):
                its = list(m.d.values())
                if meth == "values_mut":
                    return ValIter([Ref(_HeapFrame(pr), 0, [("i", 1)]) for pr in its])
                return ValIter([[Ref(_HeapFrame(pr), 0, [("i", 0)]), Ref(_HeapFrame(pr), 0, [("i", 1)])] for pr in its])
            if meth == "extend":
                src = args[1]
                if isinstance(src, MapVal):
                    src = ValIter([[k0, v0] for k0, v0 in src.items()])
                elif isinstance(src, Ref) and isinstance(deref(I, src), MapVal):
                    src = ValIter([[tmp_ref(k0), tmp_ref(v0)] for k0, v0 in deref(I, src).items()])
                while True:
                    r_ = iter_next(I, src, depth)
                    if r_.vi == 0:
                        break
                    kk, vv = r_.fields[0][0], r_.fields[0][1]
                    kz = _fz(deref(I, kk))
                    if kz in m.d:
                        m.d[kz][1] = vv
                    else:
                        m.d[kz] = [kk, vv]
                return []
            raise Unsupported("IndexMap method %s" % meth)

        def kf(x):
            x = deref(I, x)
            if isinstance(x, Ref):
                x = deref(I, x)
            return _fz(x)

        if meth in ("new", "with_capacity", "default", "with_capacity_and_hasher", "with_hasher"):
            return MapVal(is_bt)
        m = deref(I, args[0]) if args else None
        if isinstance(m, MapVal):
            if meth == "insert":
                k_ = kf(args[1])
                old_ = m.d.get(k_)
                if old_ is not None:
                    prev = old_[1]
                    old_[1] = args[2]  # keeps the entry's position (IndexMap) and the first key object
                    return some(prev)
                m.d[k_] = [args[1], args[2]]
                return NONE()
            if meth == "index" or meth == "index_mut":
                k_ = kf(args[1])
                if k_ not in m.d:
                    raise Panic("IndexMap: key not found")
                return Ref(_HeapFrame(m.d[k_]), 0, [("i", 1)])
            if meth in ("get", "get_mut"):
                k_ = kf(args[1])
                if k_ not in m.d:
                    return NONE()
                return some(Ref(_HeapFrame(m.d[k_]), 0, [("i", 1)]))
            if meth == "contains_key":
                return int(kf(args[1]) in m.d)
            if meth == "entry":
                # the crate matches on Entry::Occupied / Entry::Vacant: the variant must be the real one
                present = kf(args[1]) in m.d
                return Adt("model::MapEntry", 0 if present else 1, "Occupied" if present else "Vacant", [Adt("model::MapSlot", 0, "Slot", [m, args[1]])])
            if meth in ("first_key_value", "last_key_value"):
                its = m.items()
                if not its:
                    return NONE()
                pr = its[0] if meth.startswith("first") else its[-1]
                return some([Ref(_HeapFrame(pr), 0, [("i", 0)]), Ref(_HeapFrame(pr), 0, [("i", 1)])])
            if meth == "remove":
                k_ = kf(args[1])
                v_ = m.d.pop(k_, None)
                return some(v_[1]) if v_ else NONE()
            if meth == "len":
                return len(m.d)
            if meth == "is_empty":
                return int(not m.d)
            if meth == "clear":
                m.d.clear()
                return []
            if meth == "iter":
                return ValIter([[tmp_ref(k0), tmp_ref(v0)] for k0, v0 in m.items()])
            if meth == "keys":
                return ValIter([tmp_ref(k0) for k0, v0 in m.items()])
            if meth == "values":
                return ValIter([tmp_ref(v0) for k0, v0 in m.items()])
            if meth == "into_iter":
                return ValIter([[k0, v0] for k0, v0 in m.items()])
        raise Unsupported("map method %s" % name)
    if name.endswith("env::var") or name.endswith("env::var_os"):
        key = as_slice(I, args[0])
        kb = bytes(key.heap[key.start:key.start + key.len]).decode("utf-8", "replace")
        val = getattr(I, "env", {}).get(kb)
        if val is None:
            return err(Adt("std::env::VarError", 0, "NotPresent", [])) if name.endswith("env::var") else NONE()
        sb = StrBuf(list(val.encode()))
        return ok(sb) if name.endswith("env::var") else some(sb)
    if name.endswith("result::Result::<T, E>::is_ok_and"):
        o = args[0]
        return int(bool(call_closure(I, args[1], [o.fields[0]], depth))) if o.vname == "Ok" else 0
    if name.endswith("result::Result::<T, E>::is_err_and"):
        o = args[0]
        return int(bool(call_closure(I, args[1], [o.fields[0]], depth))) if o.vname == "Err" else 0
    if name.endswith("option::Option::<T>::is_none_or"):
        o = args[0]
        return int(bool(call_closure(I, args[1], [o.fields[0]], depth))) if o.vi == 1 else 1
    if name.endswith("option::Option::<T>::take"):
        cur = deref(I, args[0])
        I.write_ref(args[0], NONE())
        return cur
    if name.endswith("option::Option::<T>::replace"):
        cur = deref(I, args[0])
        I.write_ref(args[0], some(args[1]))
        return cur
    if name.endswith("option::Option::<T>::insert") or name.endswith("option::Option::<T>::get_or_insert_with") or name.endswith("option::Option::<T>::get_or_insert"):
        cur = deref(I, args[0])
        if name.endswith("::insert") or cur.vi == 0:
            v_ = args[1] if not name.endswith("_with") else call_closure(I, args[1], [], depth)
            I.write_ref(args[0], some(v_))
        r = args[0]
        return Ref(r.frame, r.local, list(r.path) + [("f", 0)])
    if name.endswith("mem::take"):
        g = (k.get("g") or [""])[0]
        cur = deref(I, args[0])
        if isinstance(cur, list):
            dv = []
        elif isinstance(cur, StrBuf):
            dv = StrBuf([])
        elif isinstance(cur, MapVal):
            dv = MapVal(cur.sorted)
        elif isinstance(cur, bool) or isinstance(cur, int):
            dv = 0
        elif isinstance(cur, Adt) and cur.path.endswith("Option"):
            dv = NONE()
        else:
            raise Unsupported("mem::take of %r (%s)" % (cur, g))
        I.write_ref(args[0], dv)
        return cur
    if name.endswith("mem::replace"):
        cur = deref(I, args[0])
        I.write_ref(args[0], args[1])
        return cur
    if name.endswith("mem::swap"):
        a_, b_ = deref(I, args[0]), deref(I, args[1])
        I.write_ref(args[0], b_)
        I.write_ref(args[1], a_)
        return []
    if name.endswith("borrow::Cow<'_, B> as std::ops::Deref>::deref") or name.endswith("borrow::Cow<'_, B> as core::ops::Deref>::deref") or (name.endswith("::as_ref") and "borrow::Cow" in name):
        c = deref(I, args[0])
        v_ = c.fields[0]
        v_ = deref(I, v_)
        return as_slice(I, v_)
    if name.endswith("borrow::Cow::<'_, B>::into_owned") or name.endswith("borrow::Cow::<'a, B>::into_owned"):
        c = args[0]
        v_ = deref(I, c.fields[0])
        if isinstance(v_, StrBuf):
            return v_
        sl_ = as_slice(I, v_)
        return StrBuf(list(sl_.heap[sl_.start:sl_.start + sl_.len]))
    if "map::Entry::<" in name or "map::entry::Entry::<" in name:
        from .minimir import freeze as _fz

        meth = name.rsplit("::", 1)[-1]
        e_ = args[0]
        m, key_ = e_.fields[0].fields
        kfz = _fz(deref(I, key_))
        if meth in ("or_insert", "or_insert_with", "or_default"):
            if kfz not in m.d:
                if meth == "or_insert":
                    v_ = args[1]
                elif meth == "or_insert_with":
                    v_ = call_closure(I, args[1], [], depth)
                else:
                    g = [x for x in (k.get("g") or []) if not x.startswith("'")]
                    if len(g) < 2:
                        raise Unsupported("Entry::or_default without the value type: %r" % (k.get("g"),))
                    vt = g[-1]  # Entry<'a, K, V>: the value type is the last parameter
                    if vt.startswith("std::vec::Vec<") or vt.startswith("alloc::vec::Vec<"):
                        v_ = []
                    elif vt.endswith("string::String"):
                        v_ = StrBuf([])
                    elif vt in ("usize", "u64", "u32", "i64", "i32", "u8", "bool"):
                        v_ = 0
                    else:
                        raise Unsupported("Entry::or_default of %s" % vt)
                m.d[kfz] = [key_, v_]
            return Ref(_HeapFrame(m.d[kfz]), 0, [("i", 1)])
        if meth == "and_modify":
            if kfz in m.d:
                call_closure(I, args[1], [Ref(_HeapFrame(m.d[kfz]), 0, [("i", 1)])], depth)
            return e_
        raise Unsupported("entry method %s" % name)
    if name.endswith("clone::Clone>::clone") or fname.endswith("clone::Clone::clone"):
        def cl(v):
            if isinstance(v, list):
                return [cl(x) for x in v]
            if isinstance(v, StrBuf):
                return StrBuf(list(v.b))
            if isinstance(v, Adt):
                return Adt(v.path, v.vi, v.vname, [cl(x) for x in v.fields])
            if isinstance(v, MapVal):
                m2 = MapVal(v.sorted)
                m2.d = {kk: [cl(p[0]), cl(p[1])] for kk, p in v.d.items()}
                return m2
            return v

        return cl(deref(I, args[0]))
    if name.endswith("ops::Fn::call") or name.endswith("ops::FnMut::call_mut") or name.endswith("ops::FnOnce::call_once"):
        tup = args[1]
        return call_closure(I, args[0], list(tup) if isinstance(tup, list) else [tup], depth)
    if name.endswith("result::Result::<T, E>::map_or"):
        o = args[0]
        return call_closure(I, args[2], [o.fields[0]], depth) if o.vname == "Ok" else args[1]
    if name.endswith("result::Result::<T, E>::map_or_else"):
        o = args[0]
        return call_closure(I, args[2], [o.fields[0]], depth) if o.vname == "Ok" else call_closure(I, args[1], [o.fields[0]], depth)
    if name.endswith("option::Option::<T>::map_or"):
        o = args[0]
        return call_closure(I, args[2], [o.fields[0]], depth) if o.vi == 1 else args[1]
    if name.endswith("option::Option::<std::option::Option<T>>::flatten") or name.endswith("option::Option::<core::option::Option<T>>::flatten"):
        o = args[0]
        return o.fields[0] if o.vi == 1 else o
    if name.endswith("option::Option::<T>::xor"):
        a_, b_ = args[0], args[1]
        return a_ if (a_.vi == 1 and b_.vi == 0) else (b_ if (b_.vi == 1 and a_.vi == 0) else NONE())
    if name.endswith("option::Option::<T>::or_else"):
        o = args[0]
        return o if o.vi == 1 else call_closure(I, args[1], [], depth)
    if name.endswith("option::Option::<T>::zip"):
        a_, b_ = args[0], args[1]
        return some([a_.fields[0], b_.fields[0]]) if a_.vi == 1 and b_.vi == 1 else NONE()
    if name.endswith("option::Option::<T>::as_ref") or name.endswith("option::Option::<T>::as_mut"):
        o = deref(I, args[0])
        if o.vi == 0:
            return NONE()
        r = args[0]
        return some(Ref(r.frame, r.local, list(r.path) + [("f", 0)]))
    if name.endswith("str::<impl str>::split_once") or name.endswith("str::<impl str>::rsplit_once"):
        a = as_slice(I, args[0])
        hay = bytes(a.heap[a.start:a.start + a.len])
        b = deref(I, args[1])
        pat = chr(b).encode("utf-8") if isinstance(b, int) else bytes(as_slice(I, b).heap[as_slice(I, b).start:as_slice(I, b).start + as_slice(I, b).len])
        idx_ = hay.find(pat) if name.endswith("::split_once") else hay.rfind(pat)
        if idx_ < 0 or not pat:
            return NONE()
        return some([Slice(a.heap, a.start, idx_, 1), Slice(a.heap, a.start + idx_ + len(pat), a.len - idx_ - len(pat), 1)])
    if name.endswith("option::Option::<T>::as_deref") or name.endswith("option::Option::<T>::as_deref_mut"):
        o = deref(I, args[0])
        if o.vi == 0:
            return NONE()
        from .minimir import UninitBox as _UB

        inner = o.fields[0]
        if isinstance(inner, _UB) and inner.init and not isinstance(inner.cell[0], (StrBuf, list)):
            return some(Ref(_HeapFrame(inner.cell), 0, [("i", 0)]))
        if isinstance(inner, _UB) and inner.init:
            inner = inner.cell[0]
        return some(as_slice(I, inner))
    if name.startswith("anyhow::") or name.startswith("<anyhow::"):
        if name.endswith("__private::not"):
            v_ = deref(I, args[0])
            return int(not v_)
        if "Error" in name or "format_err" in name or name.endswith("::msg") or "Context" in name:
            return Opaque("anyhow::Error")
        raise Unsupported("unmodelled call %s" % name)
    if name.endswith("cell::OnceCell::<T>::new"):
        return Adt("core::cell::OnceCell", 0, "OnceCell", [NONE()])
    if name.endswith("cell::OnceCell::<T>::get_or_init"):
        cell = deref(I, args[0])
        if cell.fields[0].vi == 0:
            cell.fields[0] = some(call_closure(I, args[1], [], depth))
        r = args[0]
        return Ref(r.frame, r.local, list(r.path) + [("f", 0), ("f", 0)])
    if name.endswith("cell::OnceCell::<T>::get"):
        cell = deref(I, args[0])
        if cell.fields[0].vi == 0:
            return NONE()
        r = args[0]
        return some(Ref(r.frame, r.local, list(r.path) + [("f", 0), ("f", 0)]))
    # enum variant constructors used as functions (`.map(Cow::Owned)`, `.map(Some)`)
    if name.endswith("borrow::Cow::Owned"):
        return Adt("alloc::borrow::Cow", 1, "Owned", [args[0]])
    if name.endswith("borrow::Cow::Borrowed"):
        return Adt("alloc::borrow::Cow", 0, "Borrowed", [args[0]])
    if name.endswith("prelude::v1::Some"):
        return some(args[0])
    if name.endswith("prelude::v1::Ok"):
        return ok(args[0])
    if name.endswith("prelude::v1::Err"):
        return err(args[0])
    if name.endswith("option::Option::Some"):
        return some(args[0])
    if name.endswith("result::Result::Ok"):
        return ok(args[0])
    if name.endswith("result::Result::Err"):
        return err(args[0])
    if name.endswith("result::Result::<T, E>::map"):
        o = args[0]
        return ok(call_closure(I, args[1], [o.fields[0]], depth)) if o.vname == "Ok" else o
    if name.endswith("result::Result::<T, E>::map_err"):
        o = args[0]
        return err(call_closure(I, args[1], [o.fields[0]], depth)) if o.vname == "Err" else o
    if name.endswith("result::Result::<T, E>::ok"):
        o = args[0]
        return some(o.fields[0]) if o.vname == "Ok" else NONE()
    if name.endswith("result::Result::<T, E>::is_ok"):
        return 1 if args[0] is not None and deref(I, args[0]).vname == "Ok" else 0
    if name.endswith("result::Result::<T, E>::is_err"):
        return 1 if deref(I, args[0]).vname == "Err" else 0
    if name.endswith("result::Result::<T, E>::and_then"):
        o = args[0]
        return call_closure(I, args[1], [o.fields[0]], depth) if o.vname == "Ok" else o
    if name.endswith("result::Result::<T, E>::unwrap_or"):
        o = args[0]
        return o.fields[0] if o.vname == "Ok" else args[1]
    if name.endswith("result::Result::<T, E>::unwrap_or_else"):
        o = args[0]
        return o.fields[0] if o.vname == "Ok" else call_closure(I, args[1], [o.fields[0]], depth)
    if name.endswith("result::Result::<T, E>::unwrap") or name.endswith("result::Result::<T, E>::expect"):
        o = args[0]
        if o.vname != "Ok":
            raise Panic("Result::unwrap on Err")
        return o.fields[0]
    if name.endswith("option::Option::<T>::map"):
        o = args[0]
        if o.vi == 0:
            return o
        return some(call_closure(I, args[1], [o.fields[0]], depth))
    if name.endswith("option::Option::<T>::unwrap_or_else"):
        o = args[0]
        return o.fields[0] if o.vi == 1 else call_closure(I, args[1], [], depth)
    if name.endswith("option::Option::<T>::unwrap_or_default") or name.endswith("result::Result::<T, E>::unwrap_or_default"):
        o = args[0]
        if (o.vi == 1 and o.path.endswith("Option")) or o.vname == "Ok":
            return o.fields[0]
        return default_of(I, (k.get("g") or [""])[0], depth)
    if name.endswith("default::Default>::default") or fname.endswith("default::Default::default"):
        g = k.get("g") or []
        mm = re.match(r"^<(.*) as (?:std|core)::default::Default>::default$", name)
        ty_ = mm.group(1) if mm else (g[0] if g else "")
        return default_of(I, ty_, depth)
    if name.endswith("option::Option::<T>::map_or_else"):
        o = args[0]
        return call_closure(I, args[2], [o.fields[0]], depth) if o.vi == 1 else call_closure(I, args[1], [], depth)
    if name.endswith("option::Option::<T>::filter"):
        o = args[0]
        if o.vi == 0:
            return o
        return o if call_closure(I, args[1], [tmp_ref(o.fields[0])], depth) else NONE()
    if name.endswith("option::Option::<T>::or"):
        return args[0] if args[0].vi == 1 else args[1]
    if name.endswith("option::Option::<T>::unwrap_unchecked"):
        return args[0].fields[0]
    if name.endswith("option::Option::<T>::and_then"):
        o = args[0]
        if o.vi == 0:
            return o
        return call_closure(I, args[1], [o.fields[0]], depth)
    if name.endswith("option::Option::<T>::is_some_and"):
        o = args[0]
        if o.vi == 0:
            return 0
        return call_closure(I, args[1], [o.fields[0]], depth)
    if name.endswith("option::Option::<T>::ok_or"):
        o = args[0]
        return ok(o.fields[0]) if o.vi == 1 else err(args[1])
    if name.endswith("convert::TryInto<U>>::try_into") or fname.endswith("convert::TryInto::try_into") or name.endswith("convert::TryFrom<T>>::try_from") or "::try_from" in name and isinstance(args[0], int):
        v = args[0]
        if isinstance(v, int):
            g = k.get("g", [])
            tgt = g[-1] if g else None
            if tgt in INT_TYPES:
                bits, signed = INT_TYPES[tgt]
                lo, hi = (-(1 << (bits - 1)), (1 << (bits - 1)) - 1) if signed else (0, (1 << bits) - 1)
                return ok(v) if lo <= v <= hi else err([])
            return ok(v)
        if isinstance(v, Slice):
            # &[T] -> [T; N] / &[T; N]
            return ok(v.heap[v.start:v.start + v.len])
        raise Unsupported("try_into of %r" % (v,))
    if "IndexMut" in name and name.endswith("::index_mut") or "ops::IndexMut" in fname:
        s_ = as_slice(I, args[0])
        r = args[1]
        if isinstance(r, int):
            if not (0 <= r < s_.len):
                raise Panic("index out of bounds")
            return ElemRef(s_, r)
        if isinstance(r, RangeIter):
            a, b = r.cur, r.end
        elif isinstance(r, Adt) and r.path.endswith("RangeTo"):
            a, b = 0, r.fields[0]
        elif isinstance(r, Adt) and r.path.endswith("RangeFrom"):
            a, b = r.fields[0], s_.len
        elif isinstance(r, Adt) and r.path.endswith("RangeFull"):
            a, b = 0, s_.len
        else:
            raise Unsupported("index_mut with %r" % (r,))
        if a > b or b > s_.len:
            raise Panic("slice range %d..%d out of bounds (len %d)" % (a, b, s_.len))
        return Slice(s_.heap, s_.start + a, b - a, s_.esz)
    if name.startswith("core::panicking::") or name.startswith("std::rt::begin_panic") or "panicking::panic" in name:
        raise Panic("explicit panic (%s)" % name)
    if "__is_feature_detected::" in name:
        feat = name.rsplit("::", 1)[1]
        return int(I.features.get(feat, True)) if hasattr(I, "features") else 1
    if "sync::atomic::Atomic" in name and name.endswith("::load"):
        v = deref(I, args[0])
        if isinstance(v, int):
            return v
        raise Unsupported("atomic load of %r" % (v,))
    if "sync::atomic::Atomic" in name and name.endswith("::store"):
        r = args[0]
        if isinstance(r, Ref):
            r.frame.locals[r.local] = args[1]
            return []
        raise Unsupported("atomic store to %r" % (r,))
    if name.endswith("arch::x86_64::_tzcnt_u64") or name.endswith("arch::x86_64::_mm_tzcnt_64"):
        a = args[0] & ((1 << 64) - 1)
        return 64 if a == 0 else (a & -a).bit_length() - 1
    if name.endswith("alloc::Layout::from_size_align") or name.endswith("alloc::layout::Layout::from_size_align"):
        return ok(Adt("core::alloc::Layout", 0, "Layout", [args[0], args[1]]))
    if name.endswith("alloc::Layout::from_size_align_unchecked"):
        return Adt("core::alloc::Layout", 0, "Layout", [args[0], args[1]])
    if name in ("std::alloc::alloc", "alloc::alloc::alloc", "std::alloc::alloc_zeroed", "alloc::alloc::alloc_zeroed"):
        lay = args[0]
        return Ptr([0] * lay.fields[0], 0, 1, 1)
    if name.endswith("alloc::dealloc") or name.endswith("mem::forget") or name.endswith("mem::drop"):
        return []
    if name.endswith("alloc::realloc"):
        p0 = to_ptr(I, args[0])
        new = [0] * args[2]
        old = p0.heap[p0.off:]
        new[:min(len(old), len(new))] = old[:min(len(old), len(new))]
        return Ptr(new, 0, 1, 1)
    if name.endswith("alloc::handle_alloc_error"):
        raise Panic("allocation failure")
    if re.search(r"ptr::(const_ptr|mut_ptr)::<impl \*(const|mut) T>::is_null$", name):
        return 0
    if name.endswith("ptr::NonNull::<T>::new"):
        return some(args[0])
    if name.endswith("ptr::NonNull::<T>::new_unchecked") or name.endswith("ptr::NonNull::<T>::as_ptr") or name.endswith("ptr::NonNull::<T>::cast"):
        return args[0]
    if name.endswith("ptr::NonNull::<T>::dangling"):
        g = k.get("g", [])
        from .minimir import pointee_size as _ps

        return Ptr([], 0, (_ps(g[0]) if g else None) or 1, 1)
    if re.search(r"ptr::mut_ptr::<impl \*mut T>::write$", name) or name.endswith("ptr::write"):
        p0 = to_ptr(I, args[0])
        v = args[1]
        if not isinstance(v, int):
            raise Unsupported("ptr.write of %r" % (v,))
        p0.store([(v >> (8 * i)) & 0xFF for i in range(p0.esz)])
        return []
    if re.search(r"ptr::(const_ptr|mut_ptr)::<impl \*(const|mut) T>::read$", name) or name.endswith("ptr::read"):
        p0 = to_ptr(I, args[0])
        b = p0.load(p0.esz)
        return sum(x << (8 * i) for i, x in enumerate(b))
    if name.endswith("intrinsics::copy_nonoverlapping") or name.endswith("ptr::copy_nonoverlapping"):
        src, dst = to_ptr(I, args[0]), to_ptr(I, args[1])
        data = src.load(args[2] * src.esz)
        dst.store(data)
        return []
    if name.endswith("slice::from_raw_parts") or name.endswith("slice::raw::from_raw_parts"):
        p0 = to_ptr(I, args[0])
        n = args[1]
        if n == 0:
            return Slice([], 0, 0, p0.esz)
        raw = p0.load(n * p0.esz)
        vals = [sum(raw[i * p0.esz + j] << (8 * j) for j in range(p0.esz)) for i in range(n)]
        return Slice(vals, 0, n, p0.esz)
    if name.endswith("vec::Vec::<T>::new") or name.endswith("vec::Vec::<T>::with_capacity") or name.endswith("vec::Vec::<T, A>::new_in"):
        return []
    if name.endswith("vec::Vec::<T, A>::push"):
        v = deref(I, args[0])
        if isinstance(v, list):
            v.append(args[1])
            return []
        raise Unsupported("Vec::push on %r" % (v,))
    if name.endswith("vec::Vec::<T, A>::pop"):
        v = deref(I, args[0])
        return some(v.pop()) if v else NONE()
    if name.endswith("vec::Vec::<T, A>::clear"):
        v = deref(I, args[0])
        del v[:]
        return []
    if name.endswith("vec::Vec::<T, A>::truncate"):
        v = deref(I, args[0])
        del v[args[1]:]
        return []
    if name.endswith("vec::Vec::<T, A>::reserve") or name.endswith("vec::Vec::<T, A>::shrink_to_fit"):
        return []
    if name.endswith("slice::<impl [T]>::contains"):
        sl = as_slice(I, args[0])
        x = deref(I, args[1])
        from .minimir import freeze as _fz

        return int(any(_fz(y) == _fz(x) for y in sl.heap[sl.start:sl.start + sl.len]))
    if name.endswith("slice::<impl [T]>::ends_with"):
        a, b = as_slice(I, args[0]), as_slice(I, args[1])
        return int(a.len >= b.len and a.heap[a.start + a.len - b.len:a.start + a.len] == b.heap[b.start:b.start + b.len])
    if name.endswith("vec::Vec::<T, A>::len"):
        v = deref(I, args[0])
        if isinstance(v, list):
            return len(v)
        if isinstance(v, StrBuf):
            return len(v.b)
        raise Unsupported("Vec::len on %r" % (v,))
    if name.endswith("vec::Vec::<T, A>::is_empty"):
        v = deref(I, args[0])
        return int(len(v if isinstance(v, list) else v.b) == 0)
    if (name.endswith("ops::DerefMut>::deref_mut") or fname.endswith("ops::DerefMut::deref_mut") or name.endswith("vec::Vec::<T, A>::as_mut_slice")) and isinstance(deref(I, args[0]), list):
        v = deref(I, args[0])
        return Slice(v, 0, len(v))
    if name.endswith("convert::AsRef<[T]>>::as_ref") or fname.endswith("convert::AsRef::as_ref") or name.endswith("convert::AsMut<[T]>>::as_mut"):
        v = deref(I, args[0])
        if isinstance(v, list):
            return Slice(v, 0, len(v))
        if isinstance(v, (Slice, StrBuf)):
            return as_slice(I, v)
        raise Unsupported("as_ref on %r" % (v,))
    if name.endswith("slice::<impl [T]>::to_vec") or name.endswith("slice::hack::to_vec"):
        sl = as_slice(I, args[0])
        return list(sl.heap[sl.start:sl.start + sl.len])
    if name.endswith("boxed::Box::<T>::new"):
        from .minimir import UninitBox

        return UninitBox(args[0], True)
    if name.endswith("boxed::Box::<T>::new_uninit"):
        from .minimir import UninitBox

        return UninitBox()
    if name.endswith("boxed::box_assume_init_into_vec_unsafe"):
        v = args[0].cell[0]
        if not isinstance(v, list):
            raise Unsupported("box_assume_init_into_vec_unsafe of %r" % (v,))
        return list(v)
    if name.endswith("boxed::Box::<std::mem::MaybeUninit<T>, A>::assume_init") or name.endswith("boxed::Box::<core::mem::MaybeUninit<T>, A>::assume_init"):
        args[0].init = True
        return args[0]
    if name.endswith("vec::from_elem"):
        import copy as _copy

        return [_copy.deepcopy(args[0]) for _ in range(args[1])]
    if name.endswith("vec::Vec::<T, A>::extend_from_slice"):
        v = deref(I, args[0])
        sl = as_slice(I, args[1])
        v.extend(sl.heap[sl.start:sl.start + sl.len])
        return []
    if name.endswith("vec::Vec::<T, A>::resize"):
        v = deref(I, args[0])
        n = args[1]
        if n < len(v):
            del v[n:]
        else:
            v.extend([args[2]] * (n - len(v)))
        return []
    if name.endswith("vec::Vec::<T, A>::insert"):
        v = deref(I, args[0])
        if args[1] > len(v):
            raise Panic("Vec::insert index out of bounds")
        v.insert(args[1], args[2])
        return []
    if name.endswith("vec::Vec::<T, A>::remove") or name.endswith("vec::Vec::<T, A>::swap_remove"):
        v = deref(I, args[0])
        if not isinstance(v, list):
            raise Unsupported("Vec::remove on %r" % (v,))
        if args[1] >= len(v):
            raise Panic("Vec::remove index out of bounds")
        if name.endswith("swap_remove"):
            v[args[1]], v[-1] = v[-1], v[args[1]]
            return v.pop()
        return v.pop(args[1])
    if name.endswith("vec::Vec::<T, A>::capacity"):
        return len(deref(I, args[0]))
    if name.endswith("slice::<impl [T]>::last_mut") or name.endswith("slice::<impl [T]>::first_mut"):
        s_ = as_slice(I, args[0])
        if not s_.len:
            return NONE()
        return some(ElemRef(s_, s_.len - 1 if name.endswith("last_mut") else 0))
    if name.endswith("slice::<impl [T]>::iter_mut"):
        return SliceIter(as_slice(I, args[0]))
    if name.endswith("slice::<impl [T]>::partition_point"):
        s_ = as_slice(I, args[0])
        lo, hi = 0, s_.len
        while lo < hi:
            mid = (lo + hi) // 2
            if call_closure(I, args[1], [ElemRef(s_, mid)], depth):
                lo = mid + 1
            else:
                hi = mid
        return lo
    if name.endswith("slice::<impl [T]>::binary_search"):
        s_ = as_slice(I, args[0])
        x = deref(I, args[1])
        vals = s_.heap[s_.start:s_.start + s_.len]
        import bisect

        i = bisect.bisect_left(vals, x)
        if i < len(vals) and vals[i] == x:
            return ok(i)
        return err(i)
    if name.endswith("Iterator::take") or name.endswith("Iterator>::take"):
        return TakeN(_hold(args[0]), args[1])
    if name.endswith("Iterator::peekable") or name.endswith("Iterator>::peekable"):
        return PeekIter(_hold(args[0]))
    if "iter::Peekable::<I>::" in name or "iter::adapters::peekable::Peekable::<I>::" in name:
        meth_ = name.rsplit("::", 1)[-1]
        pk_ = deref(I, args[0]) if isinstance(args[0], Ref) else args[0]
        if not isinstance(pk_, PeekIter):
            raise Unsupported("Peekable method on %r" % (pk_,))
        if meth_ in ("peek", "peek_mut"):
            if pk_.buf is None:
                pk_.buf = iter_next(I, pk_.it, depth)
            if pk_.buf.vi == 0:
                return NONE()
            return some(Ref(_HeapFrame(pk_.buf.fields), 0, [("i", 0)]))
        if meth_ == "next_if_eq":
            if pk_.buf is None:
                pk_.buf = iter_next(I, pk_.it, depth)
            if pk_.buf.vi == 1 and deref(I, pk_.buf.fields[0]) == deref(I, args[1]) and isinstance(deref(I, args[1]), int):
                r_, pk_.buf = pk_.buf, None
                return r_
            if pk_.buf.vi == 1 and not isinstance(deref(I, args[1]), int):
                raise Unsupported("Peekable::next_if_eq on non-integers")
            return NONE()
        raise Unsupported("Peekable::%s" % meth_)
    if name.endswith("Iterator::chain") or name.endswith("Iterator>::chain"):
        o_ = args[1]
        if isinstance(o_, list):
            o_ = ValIter(list(o_))
        elif isinstance(o_, Slice):
            o_ = SliceIter(o_)
        elif isinstance(o_, Adt) and o_.path.endswith("option::Option"):
            o_ = ValIter([o_.fields[0]] if o_.vi == 1 else [])
        elif isinstance(o_, (MapVal, Ref, StrBuf)):
            raise Unsupported("Iterator::chain with %r" % (o_,))
        return ChainIter(_hold(args[0]), _hold(o_))
    if name.endswith("i64::wrapping_rem") or name.endswith("i32::wrapping_rem"):
        a_, b_ = args[0], args[1]
        if b_ == 0:
            raise Panic("attempt to calculate the remainder with a divisor of zero")
        if b_ == -1:
            return 0
        r_ = abs(a_) % abs(b_)
        return -r_ if a_ < 0 else r_
    if name.endswith("char::methods::<impl char>::to_digit"):
        c_, radix_ = args[0], args[1]
        if radix_ < 2 or radix_ > 36:
            raise Panic("to_digit: invalid radix")
        ch_ = chr(c_) if c_ < 0x110000 else ""
        d_ = int(ch_, 36) if (len(ch_) == 1 and ch_.isascii() and ch_.isalnum()) else 99
        return some(d_) if d_ < radix_ else NONE()
    if name.endswith("Iterator::rev") or name.endswith("DoubleEndedIterator>::rev") or name.endswith("Iterator>::rev"):
        it = args[0]
        if isinstance(it, RangeIter):
            return ValIter(list(range(it.end - 1, it.cur - 1, -1)))
        if isinstance(it, RangeIncl):
            return ValIter(list(range(it.hi, it.lo - 1, -1)) if not it.done else [])
        if isinstance(it, SliceIter):
            return RevSliceIter(it.s)
        if isinstance(it, ValIter):
            return ValIter(list(reversed(it.v[it.i:])))
        raise Unsupported("rev on %r" % (it,))
    if name.endswith("Iterator::sum") or name.endswith("Iterator>::sum"):
        tot = 0
        while True:
            r = iter_next(I, args[0], depth)
            if r.vi == 0:
                return tot
            tot += deref(I, r.fields[0])
    if name.endswith("Iterator::map") or name.endswith("Iterator>::map"):
        return MapIter(_hold(args[0]), args[1])
    if name.endswith("Iterator::copied") or name.endswith("Iterator::cloned"):
        return CopiedIter(_hold(args[0]))
    if name.endswith("Iterator::zip"):
        return ZipIter(args[0], args[1] if not isinstance(deref(I, args[1]), (list, Slice)) else SliceIter(as_slice(I, args[1])))
    if name.endswith("Iterator::min") or name.endswith("Iterator::max"):
        best = None
        while True:
            r = iter_next(I, args[0], depth)
            if r.vi == 0:
                return some(best) if best is not None else NONE()
            v = deref(I, r.fields[0])
            if best is None or (v < best if name.endswith("min") else v >= best):
                best = v
    if (name.endswith("ops::Deref>::deref") or fname.endswith("ops::Deref::deref")) and isinstance(deref(I, args[0]), list):
        v = deref(I, args[0])
        return Slice(v, 0, len(v))
    if name.endswith("vec::Vec::<T, A>::as_slice"):
        v = deref(I, args[0])
        return Slice(v, 0, len(v))
    if name.endswith("string::String::new") or name.endswith("string::String::with_capacity"):
        return StrBuf()
    if name.endswith("string::String::push_str"):
        sb = strbuf_of(I, args[0])
        sl = as_slice(I, args[1])
        sb.b.extend(sl.heap[sl.start:sl.start + sl.len])
        return []
    if name.endswith("string::String::push"):
        sb = strbuf_of(I, args[0])
        sb.b.extend(chr(args[1]).encode("utf-8", "surrogatepass"))
        return []
    if name.endswith("string::String::len"):
        return len(strbuf_of(I, args[0]).b)
    if name.endswith("string::String::is_empty"):
        return int(len(strbuf_of(I, args[0]).b) == 0)
    if name.endswith("string::String::as_str") or (name.endswith("ops::Deref>::deref") and isinstance(deref(I, args[0]), StrBuf)) or (fname.endswith("ops::Deref::deref") and isinstance(deref(I, args[0]), StrBuf)):
        sb = strbuf_of(I, args[0])
        return Slice(sb.b, 0, len(sb.b))
    if (name.endswith("string::ToString>::to_string") or fname.endswith("string::ToString::to_string") or name.endswith("str::<impl str>::to_owned") or name.endswith("borrow::ToOwned>::to_owned") or name.endswith("str::<impl str>::to_string")) and isinstance(deref(I, args[0]), (Slice, StrBuf)):
        sl = as_slice(I, args[0])
        return StrBuf(sl.heap[sl.start:sl.start + sl.len])
    if name.endswith("str::<impl str>::starts_with"):
        a = as_slice(I, args[0])
        b = deref(I, args[1])
        if isinstance(b, (Slice, StrBuf)):
            b = as_slice(I, b)
            return int(a.len >= b.len and a.heap[a.start:a.start + b.len] == b.heap[b.start:b.start + b.len])
        if isinstance(b, int):
            pre = chr(b).encode("utf-8")
            return int(bytes(a.heap[a.start:a.start + len(pre)]) == pre)
        if isinstance(b, Adt) and b.path.startswith("closure:"):
            it = CharsIter(a)
            r = iter_next(I, it, depth)
            if r.vi == 0:
                return 0
            return int(bool(call_closure(I, args[1], [r.fields[0]], depth)))
        raise Unsupported("str::starts_with pattern %r" % (b,))
    if name.endswith("num::<impl u32>::from_str_radix"):
        sl = as_slice(I, args[0])
        try:
            return ok(int(bytes(sl.heap[sl.start:sl.start + sl.len]).decode(), args[1]))
        except Exception:
            return err([])
    if name.endswith("char::methods::<impl char>::from_u32") or name.endswith("char::from_u32"):
        c = args[0]
        return some(c) if (0 <= c < 0xD800 or 0xE000 <= c <= 0x10FFFF) else NONE()
    if name.endswith("result::Result::<T, E>::map_err"):
        o = args[0]
        if o.vi == 0:
            return o
        return err(call_closure(I, args[1], [o.fields[0]], depth))
    if name.endswith("option::Option::<T>::ok_or_else"):
        o = args[0]
        if o.vi == 1:
            return ok(o.fields[0])
        return err(call_closure(I, args[1], [], depth))
    if name.endswith("hint::must_use"):
        return args[0]
    if name.endswith("str::from_utf8_unchecked") or name.endswith("str::converts::from_utf8_unchecked"):
        return as_slice(I, args[0])
    if name.endswith("str::converts::from_utf8") or name.endswith("str::from_utf8"):
        sl = as_slice(I, args[0])
        try:
            bytes(sl.heap[sl.start:sl.start + sl.len]).decode("utf-8")
            return ok(sl)
        except UnicodeDecodeError:
            return err(Opaque("Utf8Error"))
    if name.endswith("string::String::from_utf8_lossy"):
        sl = as_slice(I, args[0])
        raw = bytes(sl.heap[sl.start:sl.start + sl.len])
        try:
            raw.decode("utf-8")
            return Adt("alloc::borrow::Cow", 0, "Borrowed", [sl])
        except UnicodeDecodeError:
            return Adt("alloc::borrow::Cow", 1, "Owned", [StrBuf(list(raw.decode("utf-8", "replace").encode("utf-8")))])
    if name.endswith("string::String::from_utf8_lossy_XX") or name.endswith("Cow::<'_, B>::into_owned") or name.endswith("borrow::Cow::<'_, B>::into_owned") or name.endswith("fmt::format") or "fmt::Arguments" in name or "fmt::rt::Argument" in name or name.endswith("string::ToString>::to_string") or name.endswith("ToString::to_string"):
        return Opaque("string")
    if name.endswith("slice::<impl [T]>::iter"):
        return SliceIter(as_slice(I, args[0]))
    # ---- slices
    if name.endswith("slice::<impl [T]>::len") or name.endswith("str::<impl str>::len"):
        return as_slice(I, args[0]).len
    if name.endswith("slice::<impl [T]>::is_empty"):
        return int(as_slice(I, args[0]).len == 0)
    if name.endswith("slice::<impl [T]>::as_ptr") or name.endswith("str::<impl str>::as_ptr") or name.endswith("::as_mut_ptr"):
        s = as_slice(I, args[0])
        from .minimir import pointee_size

        g = k.get("g", [])
        ps = (pointee_size(g[0]) if g else None) or s.esz
        return Ptr(s.heap, s.start * ps, ps, ps)
    if name.endswith("str::<impl str>::as_bytes"):
        return as_slice(I, args[0])
    if name.endswith("str::<impl str>::parse"):
        sl = as_slice(I, args[0])
        txt = bytes(sl.heap[sl.start:sl.start + sl.len])
        g = k.get("g", [])
        tgt = g[-1] if g else ""
        try:
            t = txt.decode("utf-8")
        except UnicodeDecodeError:
            return err(Opaque("ParseError"))
        if tgt in ("f64", "f32"):
            if re.fullmatch(r"[+-]?(inf|infinity|nan)", t, re.I):
                return ok(float(t.lower().replace("infinity", "inf")))
            if re.fullmatch(r"[+-]?(\d+\.?\d*|\.\d+)([eE][+-]?\d+)?", t):
                try:
                    return ok(float(t))
                except (ValueError, OverflowError):
                    return err(Opaque("ParseFloatError"))
            return err(Opaque("ParseFloatError"))
        if tgt in INT_TYPES:
            bits, signed = INT_TYPES[tgt]
            if re.fullmatch(r"[+-]?\d+" if signed else r"\+?\d+", t):
                v = int(t)
                lo, hi = (-(1 << (bits - 1)), (1 << (bits - 1)) - 1) if signed else (0, (1 << bits) - 1)
                if lo <= v <= hi:
                    return ok(v)
            return err(Opaque("ParseIntError"))
        raise Unsupported("str::parse::<%s>" % tgt)
    m2 = re.search(r"num::<impl (u8|u16|u32|u64|usize|i8|i16|i32|i64|isize)>::from_str_radix$", name)
    if m2:
        ty = m2.group(1)
        bits, signed = INT_TYPES[ty]
        sl = as_slice(I, args[0])
        t = bytes(sl.heap[sl.start:sl.start + sl.len]).decode("utf-8", "replace")
        radix = args[1]
        digits = "0123456789abcdefghijklmnopqrstuvwxyz"[:radix]
        body = t[1:] if t[:1] in ("+", "-") and (signed or t[:1] == "+") else t
        if not body or any(ch.lower() not in digits for ch in body):
            return err(Opaque("ParseIntError"))
        v = int(body, radix) * (-1 if t[:1] == "-" else 1)
        lo, hi = (-(1 << (bits - 1)), (1 << (bits - 1)) - 1) if signed else (0, (1 << bits) - 1)
        return ok(v) if lo <= v <= hi else err(Opaque("ParseIntError"))
    if re.search(r"f64::<impl f64>::is_finite$|num::<impl f64>::is_finite$", name) or name.endswith("f64::is_finite"):
        import math

        return int(math.isfinite(args[0]))
    mf = re.search(r"<impl f64>::(\w+)$", name)
    if mf and isinstance(deref(I, args[0]), (int, float)):
        import math

        x = float(deref(I, args[0]))
        meth = mf.group(1)
        if meth == "is_sign_negative":
            return int(math.copysign(1.0, x) < 0)
        if meth == "is_sign_positive":
            return int(math.copysign(1.0, x) > 0)
        if meth == "is_infinite":
            return int(math.isinf(x))
        if meth == "abs":
            return abs(x)
        if meth in ("floor", "ceil", "trunc", "round"):
            if not math.isfinite(x):
                return x
            if meth == "round":
                return float(math.floor(abs(x) + 0.5)) * (1 if x >= 0 else -1)
            return float({"floor": math.floor, "ceil": math.ceil, "trunc": math.trunc}[meth](x))
        if meth == "fract":
            return x - math.trunc(x) if math.isfinite(x) else float("nan")
        if meth == "to_bits":
            import struct as _st

            return _st.unpack("<Q", _st.pack("<d", x))[0]
        if meth == "from_bits":
            import struct as _st

            return _st.unpack("<d", _st.pack("<Q", int(args[0])))[0]
        if meth in ("min", "max"):
            y = float(args[1])
            if x != x:
                return y
            if y != y:
                return x
            return min(x, y) if meth == "min" else max(x, y)
        if meth == "signum":
            return float("nan") if x != x else math.copysign(1.0, x)
        if meth == "powi":
            try:
                return x ** int(args[1])
            except (OverflowError, ZeroDivisionError):
                return float("inf")
        if meth == "sqrt":
            return math.sqrt(x) if x >= 0 else float("nan")
        if meth == "log10" and x > 0:
            return math.log10(x)
    if name.endswith("<impl f64>::is_nan"):
        import math

        return int(math.isnan(args[0]))
    if name.endswith("str::<impl str>::to_lowercase") or name.endswith("str::<impl str>::to_ascii_lowercase"):
        sl = as_slice(I, args[0])
        return StrBuf(bytes(sl.heap[sl.start:sl.start + sl.len]).decode("utf-8", "surrogateescape").lower().encode("utf-8", "surrogateescape"))
    if name.endswith("str::<impl str>::to_uppercase"):
        sl = as_slice(I, args[0])
        return StrBuf(bytes(sl.heap[sl.start:sl.start + sl.len]).decode("utf-8", "surrogateescape").upper().encode("utf-8", "surrogateescape"))
    if name.endswith("str::<impl str>::split") or name.endswith("str::<impl str>::lines") or name.endswith("str::<impl str>::split_terminator"):
        a = as_slice(I, args[0])
        hay = bytes(a.heap[a.start:a.start + a.len])
        if name.endswith("::lines"):
            parts = hay.split(b"\n")
            if parts and parts[-1] == b"":
                parts.pop()
            parts = [p_[:-1] if p_.endswith(b"\r") else p_ for p_ in parts]
        else:
            b = deref(I, args[1])
            if isinstance(b, int):
                pat = chr(b).encode("utf-8")
            elif isinstance(b, (Slice, StrBuf)):
                bs = as_slice(I, b)
                pat = bytes(bs.heap[bs.start:bs.start + bs.len])
            else:
                raise Unsupported("str::split pattern %r" % (b,))
            if not pat:
                raise Unsupported("str::split with empty pattern")
            parts = hay.split(pat)
            if name.endswith("split_terminator") and parts and parts[-1] == b"":
                parts.pop()
        # sub-slices of the same heap so that pointer arithmetic on them stays meaningful
        out_, pos_ = [], a.start
        for i_, p_ in enumerate(parts):
            idx_ = bytes(a.heap[pos_:a.start + a.len]).find(p_) if p_ else 0
            out_.append(Slice(a.heap, pos_ + max(idx_, 0), len(p_), 1))
            pos_ = pos_ + max(idx_, 0) + len(p_)
            if not name.endswith("::lines") and i_ + 1 < len(parts):
                pos_ += len(pat)
            elif name.endswith("::lines"):
                while pos_ < a.start + a.len and a.heap[pos_] in (13, 10):
                    pos_ += 1
                    if a.heap[pos_ - 1] == 10:
                        break
        return ValIter(out_)
    if name.endswith("str::<impl str>::strip_prefix") or name.endswith("str::<impl str>::strip_suffix"):
        a = as_slice(I, args[0])
        hay = bytes(a.heap[a.start:a.start + a.len])
        b = deref(I, args[1])
        pat = chr(b).encode("utf-8") if isinstance(b, int) else bytes(as_slice(I, b).heap[as_slice(I, b).start:as_slice(I, b).start + as_slice(I, b).len])
        if name.endswith("prefix"):
            return some(Slice(a.heap, a.start + len(pat), a.len - len(pat), 1)) if hay.startswith(pat) else NONE()
        return some(Slice(a.heap, a.start, a.len - len(pat), 1)) if hay.endswith(pat) else NONE()
    if name.endswith("str::<impl str>::is_char_boundary"):
        a = as_slice(I, args[0])
        i_ = args[1]
        if i_ == 0 or i_ == a.len:
            return 1
        if i_ > a.len:
            return 0
        return int((a.heap[a.start + i_] & 0xC0) != 0x80)
    if name.endswith("str::<impl str>::get") or name.endswith("str::<impl str>::get_unchecked"):
        a = as_slice(I, args[0])
        r = args[1]
        lo, hi = (r.cur, r.end) if isinstance(r, RangeIter) else (0, r.fields[0]) if isinstance(r, Adt) and r.path.endswith("RangeTo") else (r.fields[0], a.len) if isinstance(r, Adt) and r.path.endswith("RangeFrom") else (None, None)
        if lo is None:
            raise Unsupported("str::get with %r" % (r,))
        okb = lo <= hi <= a.len and all(b_ in (0, a.len) or (a.heap[a.start + b_] & 0xC0) != 0x80 for b_ in (lo, hi))
        return some(Slice(a.heap, a.start + lo, hi - lo, 1)) if okb else NONE()
    if name.endswith("string::String::into_bytes"):
        return list(deref(I, args[0]).b) if isinstance(deref(I, args[0]), StrBuf) else list(as_slice(I, args[0]).heap)
    if name.endswith("string::String::into_boxed_str") or name.endswith("str::<impl str>::into_boxed_str"):
        return args[0]
    if name.endswith("string::String::try_reserve_exact") or name.endswith("string::String::try_reserve") or name.endswith("vec::Vec::<T, A>::try_reserve") or name.endswith("vec::Vec::<T, A>::try_reserve_exact"):
        if args[1] > 1 << 26:
            return err(Opaque("TryReserveError"))
        return ok([])
    if name.endswith("string::String::reserve") or name.endswith("vec::Vec::<T, A>::reserve") or name.endswith("vec::Vec::<T, A>::shrink_to_fit") or name.endswith("string::String::shrink_to_fit"):
        return []
    if name.endswith("result::Result::<T, E>::err"):
        o = args[0]
        return some(o.fields[0]) if o.vname == "Err" else NONE()
    if name.endswith("vec::Vec::<T, A>::retain") or name.endswith("vec::Vec::<T, A>::retain_mut"):
        v = deref(I, args[0])
        v[:] = [x for x in v if call_closure(I, args[1], [tmp_ref(x)], depth)]
        return []
    if name.endswith("borrow::Cow<'_, B> as std::cmp::Ord>::cmp") or name.endswith("borrow::Cow<'a, B> as std::cmp::Ord>::cmp") or name.endswith("string::String as std::cmp::Ord>::cmp") or name.endswith("str as std::cmp::Ord>::cmp") or name.endswith("string::String as std::cmp::PartialOrd>::partial_cmp") or name.endswith("str as std::cmp::PartialOrd>::partial_cmp"):
        a_ = as_slice(I, args[0])
        b_ = as_slice(I, args[1])
        ba_, bb_ = bytes(a_.heap[a_.start:a_.start + a_.len]), bytes(b_.heap[b_.start:b_.start + b_.len])
        c_ = (ba_ > bb_) - (ba_ < bb_)
        ordv = Adt("core::cmp::Ordering", c_ + 1, ["Less", "Equal", "Greater"][c_ + 1], [])
        return ordv if name.endswith("::cmp") else some(ordv)
    if name.endswith("Iterator::min_by") or name.endswith("Iterator::max_by") or name.endswith("Iterator::min_by_key") or name.endswith("Iterator::max_by_key") or name.endswith("Iterator::min") or name.endswith("Iterator::max"):
        items = []
        while True:
            r_ = iter_next(I, args[0], depth)
            if r_.vi == 0:
                break
            items.append(r_.fields[0])
        if not items:
            return NONE()
        meth_ = name.rsplit("::", 1)[-1]
        best = items[0]
        for x in items[1:]:
            if meth_ in ("min_by", "max_by"):
                c_ = call_closure(I, args[1], [tmp_ref(best), tmp_ref(x)], depth).vi - 1
            elif meth_ in ("min_by_key", "max_by_key"):
                ka_, kb_ = call_closure(I, args[1], [tmp_ref(best)], depth), call_closure(I, args[1], [tmp_ref(x)], depth)
                c_ = (ka_ > kb_) - (ka_ < kb_)
            else:
                va_, vb_ = deref(I, best), deref(I, x)
                c_ = (va_ > vb_) - (va_ < vb_)
            # min keeps the first of equals, max the last
            if (meth_.startswith("min") and c_ > 0) or (meth_.startswith("max") and c_ <= 0):
                best = x
        return some(best)
    if name.startswith("libm::") or name.startswith("<libm::"):
        import math

        fn_ = name.rsplit("::", 1)[-1]
        xs = [float(x) for x in args]
        try:
            if fn_ == "pow":
                return math.pow(xs[0], xs[1])
            if hasattr(math, fn_):
                return float(getattr(math, fn_)(*xs))
        except (ValueError, OverflowError):
            return float("nan")
        raise Unsupported("unmodelled call %s" % name)
    if name.endswith("string::String as std::clone::Clone>::clone_from"):
        dst_ = deref(I, args[0])
        src_ = as_slice(I, args[1])
        dst_.b[:] = list(src_.heap[src_.start:src_.start + src_.len])
        return []
    if name.endswith("Iterator>::rposition") or name.endswith("Iterator::rposition"):
        it_ = deref(I, args[0])
        if isinstance(it_, SliceIter):
            sl_ = it_.s
            for i_ in range(sl_.len - 1, it_.i - 1, -1):
                if call_closure(I, args[1], [ElemRef(sl_, i_)], depth):
                    return some(i_ - it_.i)
            return NONE()
        raise Unsupported("rposition on %r" % (it_,))
    if "map::OccupiedEntry::<" in name or "map::VacantEntry::<" in name or "entry::OccupiedEntry::<" in name or "entry::VacantEntry::<" in name:
        from .minimir import freeze as _fz

        meth = name.rsplit("::", 1)[-1]
        slot_ = deref(I, args[0]) if not (isinstance(args[0], Adt) and args[0].path == "model::MapSlot") else args[0]
        if not (isinstance(slot_, Adt) and slot_.path == "model::MapSlot"):
            raise Unsupported("map entry variant API %s on %r" % (name, slot_))
        m, key_ = slot_.fields
        kfz = _fz(deref(I, key_))
        occupied = "OccupiedEntry" in name
        if meth == "insert":
            if occupied:
                if kfz not in m.d:
                    raise Panic("OccupiedEntry without an entry")
                old_ = m.d[kfz][1]
                m.d[kfz][1] = args[1]
                return old_
            m.d[kfz] = [key_, args[1]]
            return Ref(_HeapFrame(m.d[kfz]), 0, [("i", 1)])
        if occupied and meth in ("get", "get_mut", "into_mut"):
            return Ref(_HeapFrame(m.d[kfz]), 0, [("i", 1)])
        if meth == "key":
            return tmp_ref(key_) if not isinstance(key_, Ref) else key_
        raise Unsupported("map entry variant API %s" % name)
    if name.endswith("string::String::truncate"):
        sb_ = deref(I, args[0])
        del sb_.b[args[1]:]
        return []
    if name.endswith("string::String::pop"):
        sb_ = deref(I, args[0])
        if not sb_.b:
            return NONE()
        t_ = bytes(sb_.b).decode("utf-8", "surrogateescape")
        ch_ = t_[-1]
        sb_.b[:] = list(t_[:-1].encode("utf-8", "surrogateescape"))
        return some(ord(ch_))
    if name.endswith("string::String::clear"):
        deref(I, args[0]).b[:] = []
        return []
    if name.endswith("str::<impl str>::split_at") or name.endswith("slice::<impl [T]>::split_at") or name.endswith("str::<impl str>::split_at_checked") or name.endswith("slice::<impl [T]>::split_at_checked"):
        a = as_slice(I, args[0])
        m_ = args[1]
        checked = name.endswith("_checked")
        bad_ = m_ > a.len or ("str" in name and 0 < m_ < a.len and (a.heap[a.start + m_] & 0xC0) == 0x80)
        if bad_:
            if checked:
                return NONE()
            raise Panic("split_at out of bounds / not on a char boundary")
        pair = [Slice(a.heap, a.start, m_, a.esz), Slice(a.heap, a.start + m_, a.len - m_, a.esz)]
        return some(pair) if checked else pair
    if name.endswith("str::<impl str>::repeat"):
        a = as_slice(I, args[0])
        if args[1] * a.len > 1 << 24:
            raise Unsupported("str::repeat of %d bytes" % (args[1] * a.len))
        return StrBuf(list(a.heap[a.start:a.start + a.len]) * args[1])
    if name.endswith("str::<impl str>::replace") or name.endswith("str::<impl str>::replacen"):
        a = as_slice(I, args[0])
        hay = bytes(a.heap[a.start:a.start + a.len])
        b = deref(I, args[1])
        if isinstance(b, int):
            pat = chr(b).encode("utf-8")
        elif isinstance(b, (Slice, StrBuf)):
            bs = as_slice(I, b)
            pat = bytes(bs.heap[bs.start:bs.start + bs.len])
        else:
            raise Unsupported("str::replace pattern %r" % (b,))
        to = as_slice(I, args[2])
        tob = bytes(to.heap[to.start:to.start + to.len])
        if not pat:
            raise Unsupported("str::replace with empty pattern")
        return StrBuf(list(hay.replace(pat, tob) if name.endswith("replace") else hay.replace(pat, tob, args[3])))
    if name.endswith("slice::<impl [S]>::join") or name.endswith("slice::<impl [V]>::join") or name.endswith("slice::<impl [T]>::join") or name.endswith("slice::Join<&str>>::join"):
        parts = as_slice(I, args[0])
        sep = as_slice(I, args[1])
        sepb = bytes(sep.heap[sep.start:sep.start + sep.len])
        outb = []
        for i_ in range(parts.len):
            ps = as_slice(I, parts.heap[parts.start + i_])
            outb.append(bytes(ps.heap[ps.start:ps.start + ps.len]))
        return StrBuf(list(sepb.join(outb)))
    if name.endswith("str::<impl str>::contains") or name.endswith("str::<impl str>::ends_with") or name.endswith("str::<impl str>::find"):
        a = as_slice(I, args[0])
        hay = bytes(a.heap[a.start:a.start + a.len])
        b = deref(I, args[1])
        meth = name.rsplit("::", 1)[-1]
        if isinstance(b, int):
            pat = chr(b).encode("utf-8")
        elif isinstance(b, (Slice, StrBuf)):
            bs = as_slice(I, b)
            pat = bytes(bs.heap[bs.start:bs.start + bs.len])
        elif isinstance(b, Adt) and b.path.startswith("closure:"):
            txt = hay.decode("utf-8", "surrogateescape")
            idxs = [i for i, ch in enumerate(txt) if call_closure(I, args[1], [ord(ch)], depth)]
            if meth == "contains":
                return int(bool(idxs))
            if meth == "ends_with":
                return int(bool(txt) and (len(txt) - 1) in idxs)
            return some(len(txt[:idxs[0]].encode("utf-8"))) if idxs else NONE()
        elif isinstance(b, list):
            pats = [chr(x).encode("utf-8") for x in b]
            if meth == "contains":
                return int(any(p_ in hay for p_ in pats))
            if meth == "find":
                hits = [hay.find(p_) for p_ in pats if hay.find(p_) >= 0]
                return some(min(hits)) if hits else NONE()
            raise Unsupported("str::%s with char array" % meth)
        else:
            raise Unsupported("str::%s pattern %r" % (meth, b))
        if meth == "contains":
            return int(pat in hay)
        if meth == "ends_with":
            return int(hay.endswith(pat))
        i = hay.find(pat)
        return some(i) if i >= 0 else NONE()
    if name.endswith("Iterator::nth") or name.endswith("Iterator>::nth"):
        r = NONE()
        for _ in range(args[1] + 1):
            r = iter_next(I, args[0], depth)
            if r.vi == 0:
                return r
        return r
    if name.endswith("Iterator::last") or name.endswith("Iterator>::last"):
        last = NONE()
        while True:
            r = iter_next(I, args[0], depth)
            if r.vi == 0:
                return last
            last = r
    if name.endswith("string::String::as_bytes"):
        return as_slice(I, args[0])
    if name.endswith("str::<impl str>::trim_matches") or name.endswith("str::<impl str>::trim_start_matches") or name.endswith("str::<impl str>::trim_end_matches"):
        a = as_slice(I, args[0])
        txt = bytes(a.heap[a.start:a.start + a.len]).decode("utf-8", "surrogateescape")
        b = deref(I, args[1])
        if isinstance(b, int):
            pred = lambda ch, c_=chr(b): ch == c_  # noqa: E731
        elif isinstance(b, list):
            cs_ = {chr(x) for x in b}
            pred = lambda ch: ch in cs_  # noqa: E731
        elif isinstance(b, Adt) and b.path.startswith("closure:"):
            pred = lambda ch: bool(call_closure(I, args[1], [ord(ch)], depth))  # noqa: E731
        elif isinstance(b, (Slice, StrBuf)):
            bs = as_slice(I, b)
            pat_ = bytes(bs.heap[bs.start:bs.start + bs.len]).decode("utf-8", "surrogateescape")
            if len(pat_) != 1:
                raise Unsupported("trim_*_matches with a multi-character string pattern")
            pred = lambda ch: ch == pat_  # noqa: E731
        else:
            raise Unsupported("trim_*_matches pattern %r" % (b,))
        meth = name.rsplit("::", 1)[-1]
        i_, j_ = 0, len(txt)
        if meth in ("trim_matches", "trim_start_matches"):
            while i_ < j_ and pred(txt[i_]):
                i_ += 1
        if meth in ("trim_matches", "trim_end_matches"):
            while j_ > i_ and pred(txt[j_ - 1]):
                j_ -= 1
        off = len(txt[:i_].encode("utf-8", "surrogateescape"))
        return Slice(a.heap, a.start + off, len(txt[i_:j_].encode("utf-8", "surrogateescape")), 1)
    if name.endswith("str::<impl str>::trim") or name.endswith("str::<impl str>::trim_start") or name.endswith("str::<impl str>::trim_end"):
        a = as_slice(I, args[0])
        txt = bytes(a.heap[a.start:a.start + a.len]).decode("utf-8", "surrogateescape")
        meth = name.rsplit("::", 1)[-1]
        RUST_WS = "\t\n\x0b\x0c\r \x85\xa0\u1680\u2000\u2001\u2002\u2003\u2004\u2005\u2006\u2007\u2008\u2009\u200a\u2028\u2029\u202f\u205f\u3000"
        t2 = txt.strip(RUST_WS) if meth == "trim" else txt.lstrip(RUST_WS) if meth == "trim_start" else txt.rstrip(RUST_WS)
        if True:
            off = len(txt[:len(txt) - len(txt.lstrip(RUST_WS))].encode("utf-8", "surrogateescape")) if meth != "trim_end" else 0
            return Slice(a.heap, a.start + off, len(t2.encode("utf-8", "surrogateescape")), 1)
        off = len(txt[:len(txt) - len(txt.lstrip())].encode("utf-8", "surrogateescape")) if meth != "trim_end" else 0
        return Slice(a.heap, a.start + off, len(t2.encode("utf-8", "surrogateescape")), 1)
    if name.endswith("str::<impl str>::chars"):
        return CharsIter(as_slice(I, args[0]))
    if name.endswith("str::<impl str>::bytes"):
        return CopiedIter(SliceIter(as_slice(I, args[0])))  # `Bytes` yields u8 by value
    if name.endswith("str::<impl str>::is_empty"):
        return int(as_slice(I, args[0]).len == 0)
    if name.endswith("char::methods::<impl char>::len_utf8"):
        c = args[0]
        return 1 if c < 0x80 else 2 if c < 0x800 else 3 if c < 0x10000 else 4
    if name.endswith("slice::<impl [T]>::get_unchecked") or name.endswith("SliceIndex<[T]>>::get_unchecked"):
        s = as_slice(I, args[0])
        i = args[1]
        if isinstance(i, int):
            if not (0 <= i < s.len):
                raise Panic("get_unchecked index %d out of bounds (len %d): undefined behaviour" % (i, s.len))
            return ElemRef(s, i)
        raise Unsupported("get_unchecked with %r" % (i,))
    if name.endswith("slice::<impl [T]>::get") or name.endswith("slice::<impl [T]>::get_mut"):
        s = as_slice(I, args[0])
        i = args[1]
        if isinstance(i, int):
            return some(ElemRef(s, i)) if 0 <= i < s.len else NONE()
        if isinstance(i, RangeIter):
            if i.cur <= i.end <= s.len:
                return some(Slice(s.heap, s.start + i.cur, i.end - i.cur, s.esz))
            return NONE()
        if isinstance(i, Adt) and i.path.endswith("RangeFrom"):
            a = i.fields[0]
            return some(Slice(s.heap, s.start + a, s.len - a, s.esz)) if a <= s.len else NONE()
        if isinstance(i, Adt) and i.path.endswith("RangeTo"):
            b = i.fields[0]
            return some(Slice(s.heap, s.start, b, s.esz)) if b <= s.len else NONE()
        raise Unsupported("slice::get with %r" % (i,))
    if "ops::Index" in fname and fname.endswith("::index") or name.endswith("SliceIndex<[T]>>::index") or name.endswith("SliceIndex<str>>::index"):
        s = as_slice(I, args[0])
        r = args[1]
        if isinstance(r, RangeIter):
            a, b = r.cur, r.end
        elif isinstance(r, RangeIncl):
            a, b = r.lo, r.hi + 1
        elif isinstance(r, Adt) and r.path.endswith("RangeToInclusive"):
            a, b = 0, r.fields[0] + 1
        elif isinstance(r, Adt) and r.path.endswith("RangeFrom"):
            a, b = r.fields[0], s.len
        elif isinstance(r, Adt) and r.path.endswith("RangeTo"):
            a, b = 0, r.fields[0]
        elif isinstance(r, Adt) and r.path.endswith("RangeFull"):
            a, b = 0, s.len
        elif isinstance(r, int):
            if not (0 <= r < s.len):
                raise Panic("index out of bounds")
            return ElemRef(s, r)
        else:
            raise Unsupported("index with %r" % (r,))
        if a > b or b > s.len:
            raise Panic("slice range %d..%d out of bounds (len %d)" % (a, b, s.len))
        return Slice(s.heap, s.start + a, b - a, s.esz)
    if re.search(r"ptr::(const_ptr|mut_ptr)::<impl \*(const|mut) T>::add$", name):
        p = to_ptr(I, args[0])
        return Ptr(p.heap, p.off + args[1] * p.esz, p.esz, p.helem)
    if re.search(r"ptr::(const_ptr|mut_ptr)::<impl \*(const|mut) T>::cast$", name):
        p = to_ptr(I, args[0])
        from .minimir import pointee_size

        g = k.get("g", [])
        ps = pointee_size(g[-1]) if g else None
        if ps is None:
            raise Unsupported("pointer cast to %r" % (g,))
        return Ptr(p.heap, p.off, ps, p.helem)
    # ---- integer helpers
    m = re.search(r"num::<impl (u8|u16|u32|u64|usize|i8|i16|i32|i64|isize|u128|i128)>::(\w+)$", name)
    if m:
        ty, meth = m.group(1), m.group(2)
        bits, signed = INT_TYPES[ty]
        a = args[0]
        if isinstance(a, Ref):
            a = I.read_path(a.frame, a.local, a.path)
        ua = (a & ((1 << bits) - 1)) if isinstance(a, int) else None
        lo_, hi_ = (-(1 << (bits - 1)), (1 << (bits - 1)) - 1) if signed else (0, (1 << bits) - 1)

        def tdiv(x, y):
            q = abs(x) // abs(y)
            return q if (x >= 0) == (y >= 0) else -q

        if meth in ("checked_add", "checked_sub", "checked_mul", "checked_neg", "checked_abs", "checked_pow", "checked_rem", "checked_div"):
            b_ = args[1] if len(args) > 1 else None
            if meth in ("checked_div", "checked_rem") and b_ == 0:
                return NONE()
            r = {"checked_add": lambda: a + b_, "checked_sub": lambda: a - b_, "checked_mul": lambda: a * b_, "checked_neg": lambda: -a,
                 "checked_abs": lambda: abs(a), "checked_pow": lambda: a ** b_, "checked_div": lambda: tdiv(a, b_), "checked_rem": lambda: a - b_ * tdiv(a, b_)}[meth]()
            return some(r) if lo_ <= r <= hi_ else NONE()
        if meth in ("abs", "unsigned_abs"):
            return abs(a) if meth == "unsigned_abs" else wrap(abs(a), ty)
        if meth == "pow":
            return wrap(a ** args[1], ty)
        if meth == "signum":
            return (a > 0) - (a < 0)
        if meth in ("is_negative", "is_positive"):
            return int(a < 0) if meth == "is_negative" else int(a > 0)
        if meth in ("overflowing_add", "overflowing_sub", "overflowing_mul"):
            r = a + args[1] if meth.endswith("add") else a - args[1] if meth.endswith("sub") else a * args[1]
            return [wrap(r, ty), int(not (lo_ <= r <= hi_))]
        if meth in ("min", "max"):
            return min(a, args[1]) if meth == "min" else max(a, args[1])
        if meth == "rem_euclid":
            return a % abs(args[1])
        if meth == "div_euclid":
            return (a - (a % abs(args[1]))) // args[1]
        if meth == "is_ascii_digit":
            return int(0x30 <= a <= 0x39)
        if meth == "is_ascii_alphabetic":
            return int(0x41 <= a <= 0x5A or 0x61 <= a <= 0x7A)
        if meth == "is_ascii_alphanumeric":
            return int(0x30 <= a <= 0x39 or 0x41 <= a <= 0x5A or 0x61 <= a <= 0x7A)
        if meth == "is_ascii_hexdigit":
            return int(0x30 <= a <= 0x39 or 0x41 <= a <= 0x46 or 0x61 <= a <= 0x66)
        if meth == "is_ascii_whitespace":
            return int(a in (0x20, 0x09, 0x0A, 0x0C, 0x0D))
        if meth == "is_ascii_control":
            return int(a < 0x20 or a == 0x7F)
        if meth == "is_ascii":
            return int(a < 0x80)
        if meth == "is_ascii_uppercase":
            return int(0x41 <= a <= 0x5A)
        if meth == "is_ascii_lowercase":
            return int(0x61 <= a <= 0x7A)
        if meth == "is_ascii_punctuation":
            return int(0x21 <= a <= 0x2F or 0x3A <= a <= 0x40 or 0x5B <= a <= 0x60 or 0x7B <= a <= 0x7E)
        if meth == "is_ascii_graphic":
            return int(0x21 <= a <= 0x7E)
        if meth == "wrapping_sub":
            return wrap(a - args[1], ty)
        if meth == "wrapping_add":
            return wrap(a + args[1], ty)
        if meth == "wrapping_mul":
            return wrap(a * args[1], ty)
        if meth == "wrapping_shl":
            return wrap(a << (args[1] % bits), ty)
        if meth == "wrapping_shr":
            return wrap(a >> (args[1] % bits), ty)
        if meth == "wrapping_neg":
            return wrap(-a, ty)
        if meth in ("wrapping_rem", "wrapping_div"):
            b_ = args[1]
            if b_ == 0:
                raise Panic("attempt to divide / take the remainder with a divisor of zero")
            q_ = abs(a) // abs(b_)
            if (a < 0) != (b_ < 0):
                q_ = -q_
            return wrap(q_, ty) if meth == "wrapping_div" else wrap(a - q_ * b_, ty)
        if meth == "saturating_sub":
            lo = -(1 << (bits - 1)) if signed else 0
            return max(a - args[1], lo)
        if meth == "saturating_add":
            hi = (1 << (bits - 1)) - 1 if signed else (1 << bits) - 1
            return min(a + args[1], hi)
        if meth == "saturating_mul":
            hi = (1 << (bits - 1)) - 1 if signed else (1 << bits) - 1
            lo = -(1 << (bits - 1)) if signed else 0
            return max(lo, min(a * args[1], hi))
        if meth == "is_power_of_two":
            return int(ua != 0 and (ua & (ua - 1)) == 0)
        if meth == "next_power_of_two":
            return 1 if ua <= 1 else 1 << (ua - 1).bit_length()
        if meth == "abs_diff":
            return abs(a - args[1])
        if meth == "count_ones":
            return bin(ua).count("1")
        if meth == "count_zeros":
            return bits - bin(ua).count("1")
        if meth == "trailing_zeros":
            return bits if ua == 0 else (ua & -ua).bit_length() - 1
        if meth == "leading_zeros":
            return bits - ua.bit_length()
        if meth == "ilog2":
            if ua == 0:
                raise Panic("ilog2 of zero")
            return ua.bit_length() - 1
        if meth == "leading_ones":
            return bits - ((~ua) & ((1 << bits) - 1)).bit_length()
        if meth == "rotate_left":
            r = args[1] % bits
            return wrap(((ua << r) | (ua >> (bits - r))) & ((1 << bits) - 1), ty)
        if meth == "rotate_right":
            r = args[1] % bits
            return wrap(((ua >> r) | (ua << (bits - r))) & ((1 << bits) - 1), ty)
        if meth == "trailing_ones":
            return call(I, fr, name.replace("trailing_ones", "trailing_zeros"), fname, k, [wrap(~a, ty)], depth)
        if meth == "clamp":
            return max(args[1], min(a, args[2]))
        if meth == "min":
            return min(a, args[1])
        if meth == "max":
            return max(a, args[1])
        if meth == "div_ceil":
            return -(-a // args[1])
        if meth == "pow":
            return wrap(a ** args[1], ty)
        if meth == "abs":
            return wrap(abs(a), ty)
        if meth == "to_le_bytes":
            return [(ua >> (8 * i)) & 0xFF for i in range(bits // 8)]
        if meth in ("from_le_bytes", "from_ne_bytes"):
            return wrap(sum((x & 0xFF) << (8 * i) for i, x in enumerate(args[0])), ty)
        if meth == "checked_sub":
            r = a - args[1]
            lo = -(1 << (bits - 1)) if signed else 0
            return some(r) if r >= lo else NONE()
        if meth == "swap_bytes":
            return wrap(int.from_bytes(ua.to_bytes(bits // 8, "little"), "big"), ty)
        raise Unsupported("integer method %s::%s" % (ty, meth))
    m = re.search(r"char::methods::<impl char>::(\w+)$", name)
    if m:
        meth = m.group(1)
        a = args[0]
        if isinstance(a, Ref):
            a = I.read_path(a.frame, a.local, a.path)
        if meth == "is_ascii_digit":
            return int(0x30 <= a <= 0x39)
        if meth == "is_ascii_alphabetic":
            return int(0x41 <= a <= 0x5A or 0x61 <= a <= 0x7A)
        if meth == "is_ascii_alphanumeric":
            return int(0x30 <= a <= 0x39 or 0x41 <= a <= 0x5A or 0x61 <= a <= 0x7A)
        if meth == "is_ascii_control":
            return int(a < 0x20 or a == 0x7F)
        if meth == "is_ascii":
            return int(a < 0x80)
        if meth == "is_ascii_hexdigit":
            return int(0x30 <= a <= 0x39 or 0x41 <= a <= 0x46 or 0x61 <= a <= 0x66)
        if meth in ("is_alphabetic", "is_alphanumeric", "is_numeric", "is_control", "is_whitespace"):
            import unicodedata

            c = chr(a)
            cat = unicodedata.category(c)
            if meth == "is_control":
                return int(cat == "Cc")
            if meth == "is_whitespace":
                return int(c.isspace() or a in (0x85,))
            alpha = cat.startswith("L") or cat == "Nl" or c.isalpha()
            num = cat in ("Nd", "Nl", "No")
            if meth == "is_alphabetic":
                return int(alpha)
            if meth == "is_numeric":
                return int(num)
            return int(alpha or num)
        raise Unsupported("char method %s" % meth)
    if fname.endswith("cmp::Ord::clamp") or (name.endswith("::clamp") and "cmp" in name):
        return max(args[1], min(args[0], args[2]))
    if fname.endswith("cmp::Ord::min") or name.endswith("::min") and "cmp" in name:
        return min(args[0], args[1])
    if fname.endswith("cmp::Ord::max") or name.endswith("::max") and "cmp" in name:
        return max(args[0], args[1])
    if fname.endswith("cmp::PartialOrd::partial_cmp") or fname.endswith("cmp::Ord::cmp") or fname.endswith("cmp::PartialOrd::lt") or fname.endswith("cmp::PartialOrd::le") or fname.endswith("cmp::PartialOrd::gt") or fname.endswith("cmp::PartialOrd::ge"):
        a, b = deref_val(I, args[0]), deref_val(I, args[1])
        ra_, rb_ = args[0], args[1]
        for _ in range(3):
            if isinstance(a, Ref):
                ra_, a = a, deref(I, a)
            if isinstance(b, Ref):
                rb_, b = b, deref(I, b)
        meth_ = fname.rsplit("::", 1)[-1]
        if isinstance(a, Adt) and isinstance(b, Adt) and a.path == b.path and not a.path.startswith(("core::", "std::", "alloc::", "model::", "closure:")):
            tr_ = "Ord" if meth_ == "cmp" else "PartialOrd"
            base_ = "cmp" if meth_ == "cmp" else "partial_cmp"
            cands = [f_ for f_ in (I.P.fns.get("<%s as std::cmp::%s>::%s" % (a.path, tr_, base_)),) if f_ is not None]
            if cands:
                r_ = I.run(cands[0], [ra_ if isinstance(ra_, Ref) else tmp_ref(a), rb_ if isinstance(rb_, Ref) else tmp_ref(b)], depth + 1)
                if meth_ in ("cmp", "partial_cmp"):
                    return r_
                o_ = r_.fields[0] if (isinstance(r_, Adt) and r_.path.endswith("Option") and r_.vi == 1) else None
                if o_ is None:
                    return 0
                c_ = o_.vi - 1
                return int({"lt": c_ < 0, "le": c_ <= 0, "gt": c_ > 0, "ge": c_ >= 0}[meth_])
            raise Unsupported("ordering of crate type %s through references" % a.path)
        if isinstance(a, (int, float)) and isinstance(b, (int, float)) and not (a != a or b != b):
            c_ = (a > b) - (a < b)
            ordv = Adt("core::cmp::Ordering", c_ + 1, ["Less", "Equal", "Greater"][c_ + 1], [])
            if meth_ == "cmp":
                return ordv
            if meth_ == "partial_cmp":
                return some(ordv)
            return int({"lt": c_ < 0, "le": c_ <= 0, "gt": c_ > 0, "ge": c_ >= 0}[meth_])
    if fname.endswith("cmp::PartialEq::eq") or fname.endswith("cmp::PartialEq::ne"):
        a, b = deref_val(I, args[0]), deref_val(I, args[1])
        from .minimir import freeze

        # `&A == &B` forwards to the referents' own PartialEq: a crate type's impl (hand-written or
        # derived) decides, not structural identity (OwnedValue::Int(1) == OwnedValue::Float(1.0))
        ra_, rb_ = args[0], args[1]
        for _ in range(3):
            if isinstance(a, Ref):
                ra_, a = a, deref(I, a)
            if isinstance(b, Ref):
                rb_, b = b, deref(I, b)
        if isinstance(a, Adt) and isinstance(b, Adt) and not a.path.startswith(("core::", "std::", "alloc::", "model::", "closure:")):
            idx = getattr(I.P, "_peq_index", None)
            if idx is None:
                idx = {}
                for fid_ in I.P.fns:
                    m_ = re.match(r"^<([A-Za-z0-9_:]+)(<.*>)? as std::cmp::PartialEq(<.*>)?>::eq$", fid_)
                    if m_ and (m_.group(3) is None or m_.group(1) in (m_.group(3) or "")):
                        idx.setdefault(m_.group(1), []).append(fid_)
                I.P._peq_index = idx
            c_ = idx.get(a.path, [])
            if len(c_) == 1 and a.path == b.path:
                ra_ = ra_ if isinstance(ra_, Ref) else tmp_ref(a)
                rb_ = rb_ if isinstance(rb_, Ref) else tmp_ref(b)
                r_ = I.run(I.P.fns[c_[0]], [ra_, rb_], depth + 1)
                return int(bool(r_) if fname.endswith("::eq") else not r_)

        def strlike(v):
            for _ in range(4):
                if isinstance(v, Ref):
                    v = deref(I, v)
                elif isinstance(v, Adt) and v.path.endswith("borrow::Cow"):
                    v = v.fields[0]
                else:
                    break
            if isinstance(v, StrBuf):
                return tuple(v.b)
            if isinstance(v, Slice):
                return tuple(v.heap[v.start:v.start + v.len])
            return None

        sa, sb = strlike(a), strlike(b)
        if sa is not None and sb is not None:
            r = sa == sb
            return int(r if fname.endswith("::eq") else not r)
        r = freeze(a) == freeze(b)
        return int(r if fname.endswith("::eq") else not r)
    if "convert::From<bool>" in name or (fname.endswith("convert::From::from") and isinstance(args[0], int)):
        return args[0]
    if fname.endswith("convert::Into::into") or name.endswith("convert::Into<U>>::into"):
        # blanket Into: identity on scalars; local From impls are resolved as ordinary calls
        g = k.get("g", [])
        if isinstance(args[0], (int, Opaque, StrBuf)):
            return args[0]
        if len(g) == 2 and g[1] in ("std::boxed::Box<str>", "std::string::String", "alloc::string::String", "std::boxed::Box<[u8]>", "std::vec::Vec<u8>") and isinstance(deref(I, args[0]), (Slice, StrBuf)):
            s_ = as_slice(I, args[0])
            data_ = list(s_.heap[s_.start:s_.start + s_.len])
            if g[1].startswith("std::boxed::Box<"):
                from .minimir import UninitBox

                return UninitBox(StrBuf(data_) if "str" in g[1] else data_, True)
            return StrBuf(data_) if "String" in g[1] else data_
        if len(g) == 2 and g[0] == g[1]:
            return args[0]
        if len(g) == 2 and g[1] in ("std::boxed::Box<%s>" % g[0], "alloc::boxed::Box<%s>" % g[0]):
            from .minimir import UninitBox

            return UninitBox(args[0], True)
        # look for a local `impl From<T> for U`
        if len(g) == 2:
            cand = "<%s as std::convert::From<%s>>::from" % (g[1], g[0])
            body = I.P.fns.get(I.P.norm(cand, False))
            if body is not None:
                return I.run(body, [args[0]], depth + 1)
        raise Unsupported("Into::into %r with %r" % (g, args[0]))
    if name.endswith("mem::size_of") or name.endswith("mem::align_of"):
        raise Unsupported(name)
    if name.endswith("hint::unreachable_unchecked") or name.endswith("intrinsics::unreachable"):
        raise Panic("unreachable_unchecked reached")
    if name.endswith("hint::assert_unchecked"):
        if not args[0]:
            raise Panic("assert_unchecked(false): undefined behaviour")
        return []
    if name.endswith("option::Option::<T>::is_some"):
        return int(deref_val(I, args[0]).vi == 1)
    if name.endswith("option::Option::<T>::is_none"):
        return int(deref_val(I, args[0]).vi == 0)
    if name.endswith("option::Option::<T>::unwrap_or"):
        o = args[0]
        return o.fields[0] if o.vi == 1 else args[1]
    raise Unsupported("unmodelled call %s" % name)


class _HeapFrame:
    __slots__ = ("locals", "fn", "id")

    def __deepcopy__(self, memo):
        return self

    def __init__(self, heap):
        self.locals = [heap]
        self.fn = None
        self.id = -1


def ElemRef(s, i):
    """&T into a slice element: a Ref whose base is the heap list itself."""
    return Ref(_HeapFrame(s.heap), 0, [("i", s.start + i)])


def deref(I, v):
    if isinstance(v, Ref):
        return I.read_path(v.frame, v.local, v.path)
    return v


def deref_val(I, v):
    return deref(I, v)


def as_slice(I, v):
    v = deref(I, v)
    if isinstance(v, Adt) and v.path.endswith("borrow::Cow"):
        v = deref(I, v.fields[0])
    if type(v).__name__ == "UninitBox" and v.init and isinstance(v.cell[0], (StrBuf, list, Slice)):
        v = v.cell[0]  # Box<str> / Box<[T]>
    if isinstance(v, Slice):
        return v
    if isinstance(v, StrBuf):
        return Slice(v.b, 0, len(v.b))
    if isinstance(v, list):
        return Slice(v, 0, len(v))
    raise Unsupported("expected slice, got %r" % (v,))
