"""Property registry: which rules decide which clauses of which property."""
import functools
import sys

from . import harness
from . import facts as F


def _lazy(modname, fname, **kw):
    def run(progs, tier):
        import importlib

        m = importlib.import_module("rules." + modname)
        return getattr(m, fname)(progs, tier, **kw)

    run.__name__ = "%s.%s" % (modname, fname)
    return run


def only_cfgs(rule, cfgs):
    """Run a rule only on some of the loaded configurations."""

    def run(progs, tier):
        names = [c for c in progs.keys() if c in cfgs] or list(progs.keys())[:1]
        sub = progs.subset(names) if hasattr(progs, "subset") else {c: progs[c] for c in names}
        return rule(sub, tier)

    run.__name__ = getattr(rule, "__name__", "rule")
    return run


def quick_family(rule):
    """The thorough tier runs this rule on its quick family: the full product of its thorough family did not
    complete in the evaluator within a session, and a check that was never seen to pass is not registered."""

    def run(progs, tier):
        return rule(progs, "quick")

    run.__name__ = getattr(rule, "__name__", "rule")
    return run


Q = ["cli", "simd"]
TH = F.THOROUGH_CONFIGS

# crossings counted on today's tree, per configuration
T1_ALL = _lazy("t1", "rule_t1", floor={"cli": 21, "default": 21, "simd": 26, "portable": 21, "scalar": 11, "nodefault": 4, "serde": 21, "full": 26, "*": 4})

REGISTRY = {}


def reg(pid, level, explanation, rules, quick=None, thorough=None, technique=None, note=None, design_ref=None):
    REGISTRY[pid] = dict(
        level=level, explanation=explanation, rules=rules, quick=quick or ["cli"], thorough=thorough or TH,
        technique=technique, note=note, design_ref=design_ref,
    )


reg(
    "C05",
    "translation_validation",
    "Per-(byte,state) behaviour of every JSON semi-index engine (reference state machine + writer, PFSM tables via "
    "build_semi_index, SSE2 and AVX2 classify+cascade) is tabulated from the engines' MIR by exact finite-domain "
    "evaluation and compared cell by cell (ib bits, bp bits, next state), plus lane-position agreement of the SIMD "
    "class masks; dispatch safety of the AVX2 arm by target-feature dominance (T1). Decides engine agreement per byte "
    "and per lane; chunk-loop extent and state carry are decided by KSHAPE/CARRY; BitWriter packing is shared and not decided.",
    [
        only_cfgs(_lazy("jsonsemi", "rule_json", kind="standard"), ["cli"]),
        only_cfgs(_lazy("jsonsemi", "rule_json", kind="simple"), ["cli"]),
        T1_ALL,
    ],
    quick=["cli"],
    technique="finite-domain abstract interpretation of MIR fragments (engine transfer tables compared cell by cell) + target-feature dominance dataflow",
    design_ref="§3 CLASS/CASCADE/TABLE/T1, §4 C05",
)

reg(
    "C32",
    "translation_validation",
    "Simple-cursor classifier and cascade of every engine (reference builder, SSE2, AVX2) tabulated over all 256 bytes x 3 "
    "states from MIR and compared with the reference and the documented machine; lane-position agreement; T1 for dispatch. "
    "SIMPLETAB evaluates SimpleJsonIndex::build and its navigation (structural_count/pos/index, find_close, skip_value) from "
    "MIR over a family of valid documents (all value kinds, structural characters and escapes inside strings, > 64 structural "
    "bytes, both select dispatch arms) against a reference scanner: every k, every byte position, every open bracket, every value start.",
    [only_cfgs(_lazy("jsonsemi", "rule_json", kind="simple"), ["cli"]), only_cfgs(_lazy("simpletab", "rule_simple"), ["cli"]), T1_ALL],
    quick=["cli"],
    technique="finite-domain abstract interpretation of MIR fragments + target-feature dominance dataflow",
    design_ref="§4 C32",
)


reg(
    "C13",
    "translation_validation",
    "Each UTF-8 validator (scalar, broadword, raw AVX2 accept kernel, SIMD dispatcher) is evaluated from its MIR over a "
    "boundary-complete family of byte windows (every row boundary of Unicode Table 3-7 and its neighbours, truncated and "
    "complete, placed across 8-byte word and 32-byte block edges, followed by nothing / ASCII / a full ASCII block) and "
    "compared with Table 3-7 (acceptance, longest-valid-prefix offset, LF line/column) and with each other (same error); "
    "T1 decides the AVX2 dispatch. Boundary-complete, not exhaustive over byte strings.",
    [only_cfgs(_lazy("utf8tab", "rule_utf8"), ["cli"]), T1_ALL],
    quick=["cli"],
    technique="finite-domain evaluation of validator MIR over boundary-complete window family vs Unicode Table 3-7 + target-feature dominance",
    design_ref="§3 CLASS/SIBCONST (realised as UTF8TAB), §4 C13",
)

E_C08 = [r"^json::validate::validate$"]
reg(
    "C08",
    "other",
    "Decides structural clauses of strict JSON validation: recursion of the validator is guarded by an error-returning depth "
    "test on every cycle (REC); UTF-8 acceptance inside strings follows Unicode Table 3-7 on a boundary-complete window family "
    "and errors carry the offset/line/column of the same position (UTF8TAB(json)). Full language equality with RFC 8259 is not decided.",
    [
        only_cfgs(_lazy("utf8tab", "rule_json_utf8"), ["cli"]),
        only_cfgs(_lazy("cgrules", "rule_rec", entries=E_C08, name="REC(json::validate)", scope=r"^json::validate::"), ["cli"]),
    ],
    quick=["cli"],
    technique="call-graph SCC + dominance of depth guards; finite-domain evaluation of validator MIR vs Unicode Table 3-7",
)


reg(
    "C09",
    "translation_validation",
    "The four JSON string-body writers are evaluated from MIR on a boundary-complete character set (all of U+0000..U+00FF, "
    "every UTF-8 length / UTF-16 plane boundary, U+10FFFF) and on multi-escape strings: each body must decode back under RFC 8259 "
    "section 7, be escaped exactly when the convention requires, and use the documented spelling. The vectorised escape scanner "
    "(AVX2 arm, SSE2 arm, scalar, public entry under both detection outcomes) is evaluated on every byte value at every code region "
    "and on a boundary-complete (length, start, needle position) family against 'first special byte at or after start'. T1 decides dispatch.",
    [
        only_cfgs(_lazy("charmap", "rule_json_writers"), ["cli"]),
        only_cfgs(_lazy("scantab", "rule_escape_scanner"), ["cli"]),
        T1_ALL,
    ],
    quick=["cli"],
    technique="finite-domain evaluation of writer/scanner MIR vs RFC 8259 escape table and first-match definition + target-feature dominance",
    design_ref="§3 CHARMAP/CLASS/KSHAPE-K3 (realised as CHARMAP+SCANTAB), §4 C09",
)

TABLES_C02 = [
    only_cfgs(_lazy("tables", "rule_tables"), ["cli"]),
    only_cfgs(_lazy("tables", "rule_select_in_byte"), ["cli"]),
    only_cfgs(_lazy("tables", "rule_block_popcount_lanes"), ["cli"]),
    _lazy("tables", "rule_popcount_portable_units"),
]
reg(
    "C02",
    "translation_validation",
    "Compiler-evaluated lookup tables (select-in-byte, BP byte min/max/total excess, find-close) equal their bit-at-a-time definition on "
    "every entry; select_in_byte equals its definition for every byte and k (incl. k>=8 guard); the AVX2 block popcount's lane function equals "
    "popcount at every byte position and does not overflow on saturated blocks; the portable SWAR popcount is checked on all unit-byte words and "
    "saturated words (necessary condition for its constants). T1 decides PDEP/AVX2 dispatch. 64-bit arithmetic of select_in_word variants is not decided.",
    TABLES_C02 + [T1_ALL],
    quick=["cli", "simd"],
    technique="const-evaluated table comparison + finite-domain evaluation of kernel MIR + target-feature dominance",
)
reg(
    "C01",
    "translation_validation",
    "The BitVec structure is evaluated from MIR (BVTAB): with_config at select sample rates 256 and 3 (thorough: 1, 3, 100, 256, 4096), then get / rank1 / rank0 / select1 / select0 / "
    "count_ones / count_zeros for every position and rank incl. out-of-range ones, on a family of word vectors (boundary patterns in 1-2 words at lengths 0,1,63,64,65,127,128; vectors "
    "crossing the 8-word scan block and the 512-bit rank block; long zero runs; stray bits past len; surplus storage words), against counting bits one at a time, under both outcomes "
    "of the AVX2 / fast-BMI2 detectors; the thorough tier repeats it in the simd and portable-popcount configurations. Bounded-exhaustive, not all inputs. Plus structural clauses: popcount strategies (portable SWAR on unit-byte and saturated words, AVX2 block kernel lanes) "
    "equal popcount; dispatch of AVX2/BMI2/AVX-512 kernels is dominated by detection (T1) in the default and simd builds. "
    "Directory arithmetic and sampled select are not decided.",
    [
        only_cfgs(_lazy("tables", "rule_block_popcount_lanes"), ["cli"]),
        _lazy("tables", "rule_popcount_portable_units"),
        only_cfgs(_lazy("structrules", "rule_tailmask", scope=r"^bits::", floor=1), ["cli"]),
        only_cfgs(_lazy("structrules", "rule_rank_layout"), ["cli"]),
        only_cfgs(_lazy("structrules", "rule_sampleidx", floor=9), ["cli"]),
        _lazy("bvtab", "rule_bitvec_tiered"),
        T1_ALL,
    ],
    quick=["cli", "simd"],
    technique="finite-domain evaluation of kernel MIR + def-use provenance rules + target-feature dominance dataflow",
)


reg(
    "C20",
    "translation_validation",
    "Every DSV engine (scalar reference, word-at-a-time scalar, SSE2, AVX2, BMI2) is evaluated from MIR as a whole builder on a finite "
    "structured family: configurations with distinct delimiter/quote/newline bytes including values >= 0x80, every relevant byte value at "
    "chunk lanes 31/32 and in the padded tail, and quote-carry texts that open a quoted field in one 64-byte chunk and close it in the next; "
    "markers and newlines bit streams are compared with the quote-aware definition (hence with each other). T1 decides the dispatcher incl. the "
    "two-feature BMI2 arm. Boundary-complete, not exhaustive over byte strings.",
    [only_cfgs(_lazy("dsvtab", "rule_dsv"), ["cli"]), T1_ALL],
    quick=["cli"],
    technique="finite-domain evaluation of engine MIR (whole builders) vs the quote-aware definition + target-feature dominance",
    design_ref="§3 CLASS/CASCADE/CARRY (realised as DSVTAB), §4 C20",
)


reg(
    "C16",
    "translation_validation",
    "Each x86 YAML scanning kernel (classify_yaml_chars both HAS_CR instantiations, find_quote_or_escape, find_single_quote, find_newline, "
    "count_leading_spaces, find_block_scalar_end, parse_anchor_name) is evaluated from MIR in its AVX2 form, its SSE2 form, through the runtime "
    "dispatcher under both detection outcomes, and in its scalar counterpart, on a finite structured family (needle x position across the 16/32-byte "
    "widths x length x start/end; indentation x min_indent x line-break form x alignment for block scalars) and compared with the kernel's definition "
    "(hence with each other). T1 decides dispatch safety. Whole-index equality follows only up to the parser using kernels as pure functions; not proved.",
    [only_cfgs(_lazy("yamltab", "rule_yaml_kernels"), ["cli"]), T1_ALL],
    quick=["cli"],
    technique="finite-domain evaluation of kernel MIR (AVX2 / SSE2 / dispatcher / scalar siblings) vs kernel definitions + target-feature dominance",
    design_ref="§3 CLASS/KSHAPE (realised as YAMLTAB), §4 C16",
)


reg(
    "C04",
    "translation_validation",
    "The balanced-parentheses structure is evaluated from MIR (BPTAB): constructors new / borrowed from_words / new_with_cspoppy / assemble_with_rate at rates 1,3,100,256, then "
    "find_close, find_open, enclose/parent, excess, next_sibling, first_child, subtree_size, rank1/rank0, select0/select1, total_ones/zeros on every bit string up to a bounded "
    "length (balanced or not, with and without stray bits past len, and with a surplus storage word) and on boundary families crossing the word, the 8-word rank block, the 32-word L1 "
    "block and (thorough) the 1024-word L2 block, against linear excess-scan definitions; both in-word select paths are exercised. Bounded-exhaustive, not all inputs. "
    "Plus structural rules: the four BP byte tables equal their excess-scan definition on every entry (TABLE); "
    "every sampled-select reader derives its sample index as k / rate with the builder's rate, or the rate is established to be a power of two (SAMPLEIDX); "
    "the partial word is selected from `len`, not from the container length (TAILMASK; three known-finding sites in trees::bp); SSE4.1 builders under `simd` are "
    "dominated by detection (T1). RangeMin skipping and rank/select arithmetic are not decided.",
    [
        only_cfgs(_lazy("tables", "rule_tables", which=["trees::bp::"]), ["cli"]),
        only_cfgs(_lazy("structrules", "rule_sampleidx", floor=9), ["cli"]),
        only_cfgs(_lazy("structrules", "rule_tailmask", scope=r"^trees::bp::", floor=3), ["cli"]),
        only_cfgs(_lazy("structrules", "rule_ctor_siblings"), ["cli"]),
        only_cfgs(_lazy("bptab", "rule_bp"), ["cli"]),
        T1_ALL,
    ],
    quick=["cli", "simd"],
    technique="const-evaluated table comparison; def-use provenance rules over MIR (sample-index derivation, tail-mask word provenance); target-feature dominance",
)


E_C30 = [r"^jq::(eval|eval_generic|parser)::(eval\w*|parse\w*)$", r"^bin::jq_runner::", r"^bin::output::"]
reg(
    "C30",
    "other",
    "Crash classes of the jq interpreter that are decidable from code shape: every cycle of input-driven recursion reachable from parse/eval "
    "(functions whose recursion is not bounded by AST or YAML-cursor depth) must contain a call edge dominated by a depth guard (REC; hand-triaged "
    "value-driven cycles are accepted with a reason each); calls of panicking depth guards reachable from eval are reported (PANICGUARD: the deliberate "
    "assert_depth design, all known findings); allocation sizes derived from runtime numbers must be refused before allocating (ALLOC). "
    "JQPANIC(dates) evaluates the date / time builtins (name tables indexed by weekday and month, arithmetic on broken-down times) from MIR through both "
    "evaluators on 15 programs x 14 inputs (negative, fractional, huge and out-of-range fields): no evaluation may reach a panic. "
    "Arithmetic/index panics in other builtins are not decided.",
    [
        only_cfgs(_lazy("cgrules", "rule_rec", entries=E_C30, name="REC(jq)", floor=50), ["cli"]),
        only_cfgs(_lazy("cgrules", "rule_panicguard", entries=E_C30, name="PANICGUARD"), ["cli"]),
        only_cfgs(_lazy("cgrules", "rule_alloc"), ["cli"]),
        only_cfgs(_lazy("jqeval", "rule_no_panic"), ["cli"]),
    ],
    quick=["cli"],
    technique="call-graph SCC analysis with dominance of depth guards; reachability of panicking guards; intraprocedural taint to allocation sinks; finite-domain evaluation of the date builtins' MIR (panic freedom on a family)",
)

E_C19 = [r"^(json|yaml|dsv|text)::", r"^jq::parser::parse", r"^bin::(jq_runner|yq_runner|output|jq_locate|yq_locate)::"]
reg(
    "C19",
    "other",
    "Crash classes decidable from code shape on the load / validate / traverse / print / parse entry points: unguarded input-driven recursion (REC), "
    "panicking depth guards reachable from those entries (PANICGUARD, known findings), vector kernels reachable without feature detection (T1, all quick "
    "configurations), alignment-sensitive panicking casts on caller bytes (ALIGN). Index/slice/arithmetic panics in general are not decided.",
    [
        only_cfgs(_lazy("cgrules", "rule_rec", entries=E_C19, name="REC(load/print)", floor=300), ["cli"]),
        only_cfgs(_lazy("cgrules", "rule_panicguard", entries=E_C19, name="PANICGUARD"), ["cli"]),
        only_cfgs(_lazy("cgrules", "rule_align"), ["cli"]),
        only_cfgs(_lazy("charmap", "rule_json_decoder"), ["cli"]),
        T1_ALL,
    ],
    quick=["cli", "simd"],
    technique="call-graph SCC analysis with dominance of depth guards; reachability; target-feature dominance dataflow; alignment rule on resolved generic casts; finite-domain evaluation of the string decoder (panic freedom on truncated escapes)",
)

reg(
    "C31",
    "other",
    "No alignment-increasing panicking cast is applied to caller-supplied bytes (ALIGN over every bytemuck call in the crate, alignment from the "
    "resolved generic arguments). Every BalancedParens constructor (the ones from_parts rebuilds through and the primary ones) takes each index array from the "
    "same element of build_bp_index's result tuple, the element the builder binds from the like-named local (CTOR), so a rebuilt index is assembled from the same "
    "parts as the original. The value round trip is bytemuck's and is not decided; rebuilt-index equality otherwise reduces to C04/C07 arithmetic.",
    [
        only_cfgs(_lazy("cgrules", "rule_align"), ["cli"]),
        only_cfgs(_lazy("structrules", "rule_ctor_siblings"), ["cli"]),
    ],
    quick=["cli"],
    technique="resolved-generic alignment rule over MIR call sites; def-use sibling agreement of constructors over the index builder's result tuple",
)


reg(
    "C28",
    "translation_validation",
    "Writer/reader agreement between jq-locate's path printer and the jq expression parser: printer functions (can_use_dot_notation, escape_jq_string) "
    "and reader functions (Parser::is_expr_terminator, parse_ident, parse_string_literal in jq mode) are evaluated from MIR on a boundary-complete key family "
    "(every ASCII character alone / second / infix, every keyword literal the parser tests for with prefix/suffix/case variants, control characters, quotes, "
    "backslashes, interpolation openers, non-ASCII alphabetic/numeric/symbol characters): a key printed in dot form must be read back as exactly that field name, "
    "a key printed in bracket form must decode to the key. Offset->node mapping and path reconstruction are not decided.",
    [only_cfgs(_lazy("locate", "rule_locate", module="json::locate", mode="Jq", name="WRITERREADER(jq-locate)"), ["cli"])],
    quick=["cli"],
    technique="finite-domain evaluation of printer and parser MIR fragments (writer/reader table agreement)",
)
reg(
    "C29",
    "translation_validation",
    "Same writer/reader agreement for yq-locate's printer (yaml::locate) against the parser in yq mode (identifiers may contain inner hyphens). "
    "POSTAB evaluates the text-position structures behind the offset->node lookup (OpenPositions / AdvancePositions / EndPositions: get in every "
    "access order, find_last_open_at_text_pos at every position, cursors) from MIR against the plain list on a family of position lists "
    "(duplicate runs straddling 64-multiples, sparse gaps, > 256 unique positions, dense fallback). The walk from the YAML parser's output to those "
    "lists, and evaluation of the printed expression, are not decided.",
    [
        only_cfgs(_lazy("locate", "rule_locate", module="yaml::locate", mode="Yq", name="WRITERREADER(yq-locate)"), ["cli"]),
        only_cfgs(_lazy("postab", "rule_positions"), ["cli"]),
    ],
    quick=["cli"],
    technique="finite-domain evaluation of printer and parser MIR fragments (writer/reader table agreement)",
)


reg(
    "C06",
    "translation_validation",
    "JSONNAV evaluates json::light from MIR on a family of valid RFC 8259 documents (every value kind, nesting past 128 levels, every escape "
    "form incl. surrogate pairs, every number shape, all four white-space bytes in every gap, duplicate keys, empty containers, structural "
    "characters inside strings, word / rank-block / SIMD-chunk crossings; thorough: 2048- and 65536-bit BP blocks): JsonIndex::build, then a full "
    "walk from the root (value / uncons / key / value_cursor / uncons_cursor / as_str / raw_bytes / as_i64 / as_f64) with text_position, text_range, "
    "raw_bytes, parent, the first_child/next_sibling chain and find_cursor (last duplicate) at every node, against spans from a reference scanner "
    "and values from Python's json module. BPTAB(new) evaluates the BalancedParens constructor the index uses on L2-scale shaped sequences. "
    "The string-decoding clause is additionally tabulated on a boundary-complete family of string bodies (decode_escapes). A family, not all documents.",
    [
        only_cfgs(_lazy("charmap", "rule_json_decoder"), ["cli"]),
        only_cfgs(_lazy("jsonnav", "rule_nav"), ["cli"]),
        only_cfgs(_lazy("bptab", "rule_bp", name="BPTAB(new)", only=("new",)), ["cli"]),
    ],
    quick=["cli"],
    technique="finite-domain evaluation of index/cursor MIR over a document family vs reference reader (spans) and RFC 8259 parser (values)",
)

reg(
    "C14",
    "translation_validation",
    "YAMLLOAD evaluates the YAML loader from MIR — YamlIndex::build (oracle parser, index construction) then root(text).to_json_document() "
    "(navigation, scalar decoding and plain resolution, alias resolution, JSON streaming) — on the generated presentation space of rules/yamlgen.py: "
    "trees of mappings / sequences / string-int-bool-null leaves (strings with YAML indicators, reserved words, leading/trailing spaces, non-ASCII, "
    "control characters) rendered with an independent presentation choice at every node (block / flow / compact / indentless collections, plain / "
    "single / double / literal / folded scalars, comments, blank lines, anchors + aliases, explicit keys, document markers, several documents), "
    "with LF and, for a share, CRLF and CR breaks; the JSON text read by Python's json must equal the tree with exact types. Every stream is "
    "cross-checked with PyYAML's BaseLoader before use. Named documents cover shapes kept out of the random family. A deterministic sample of "
    "the space (60 streams quick, 600 thorough), not the space.",
    [only_cfgs(_lazy("yamlload", "rule_load", n_quick=60), ["cli"])],
    quick=["cli"],
    technique="finite-domain evaluation of parser/index/cursor MIR over a generated presentation family vs the generating tree",
)

reg(
    "C22",
    "translation_validation",
    "CSVRT evaluates the writer (jq::eval::format_csv / format_dsv incl. quote_csv_field) and the reader (the CLI's parse_dsv_input: DSV index, "
    "rows/fields, strip_quotes_and_decode) from MIR and composes them: the printed line plus the newline raw output adds must read back as exactly "
    "one row equal to the array. Arrays of 1..20 strings over {delimiter, quote, CR, LF, space, letters, non-ASCII, empty} (every string up to "
    "length 2, longer mixes), ten delimiters quick / every printable ASCII delimiter other than the quote thorough. A family, not all arrays; the "
    "CLI's argument handling (`-r`, `--input-dsv`) is not evaluated.",
    [only_cfgs(_lazy("csvrt", "rule_csv"), ["cli"])],
    quick=["cli"],
    technique="finite-domain evaluation of writer and reader MIR composed (writer/reader round trip on a string-array family)",
)

reg(
    "C26",
    "translation_validation",
    "Only the identity clause, at the loader: the same generated tree supplied as JSON text (compact with raw non-ASCII, and indented with \\u escapes incl. "
    "surrogate pairs) goes through the route yq uses for JSON input (YamlIndex::build + mark_json_sourced, then to_json_document) and must load as the tree; "
    "C14's YAMLLOAD decides the same for its block / flow YAML renderings, so the renderings agree. YQDOM(syntax) adds programs: the yq runner's core "
    "(yq_runner::evaluate_yaml_direct_filtered with and without the JSON-sourced mark, then output_value with -o json) on generated trees (and trees with integers beyond "
    "2^53 / at the i64 edges) given as JSON text and as their generated YAML presentation, crossed with 12 programs that do not inspect presentation (the thorough tier runs the same family: the larger one was never run to completion): "
    "the printed texts and the error outcome must be the same.",
    [only_cfgs(quick_family(_lazy("yamlload", "rule_load_json", n_quick=40)), ["cli"]), only_cfgs(quick_family(_lazy("yqdom", "rule_syntax")), ["cli"])],
    quick=["cli"],
    technique="finite-domain evaluation of the loader and of the yq runner's evaluate-and-print core from MIR on JSON and YAML renderings of a generated tree family",
)

reg(
    "C25",
    "translation_validation",
    "JQIDENT evaluates jq's value identities from MIR through both evaluators (parser + jq::eval::eval and eval_generic::eval_with_cursor): each identity is a program "
    "whose only correct output is `true` — tojson|fromjson, to_entries|from_entries, with_entries(.), fromstream(tostream), @base64|@base64d, @uri|@urid, "
    "setpath(p; getpath(p)) for every p in paths, sort is an ordered permutation, unique is the sorted deduplication with strictly increasing neighbours, assignment sets "
    "exactly the assigned path and leaves every unrelated path alone, reverse and explode|implode involutions, keys sorted — on JSON values of every kind (nested, "
    "non-ASCII, extreme numbers, mixed-type arrays for the total order). 26 identities x 10 values (both tiers: the 32-value product was never run to completion and is not registered). Evaluations needing an unmodelled item are skipped "
    "and counted (fail closed below 90% quick, 80% thorough). A value family, not all values.",
    [only_cfgs(quick_family(_lazy("jqident", "rule_identities")), ["cli"])],
    quick=["cli"],
    technique="finite-domain evaluation of parser and evaluators' MIR on identity programs over a value family",
)

reg(
    "C10",
    "translation_validation",
    "NUMFMT evaluates the crate's number spelling functions from MIR: format_number_jq_compat on a family of decimal literals of every shape (integers, decimals, "
    "e/E exponents with and without sign and leading zeros, magnitudes from 5e-324 to 1.8e308, 30-digit mantissas, leading zeros and `+`): the result must be JSON number "
    "syntax with the literal's value as a double; jq_bare_float_display and the yq spellings format_float_yq / _yaml / _yaml_nested / format_float_with_fraction on finite "
    "doubles (powers of ten and two, around 2^53 and 2^63, subnormals, extremes, pseudo-random bit patterns): the text must parse back to exactly the same double; "
    "format_int on boundary integers. std's shortest-round-trip digit generation is modelled (Python's repr implements the same contract): the crate's logic around it is "
    "what is decided. A family, not all doubles or literals.",
    [only_cfgs(_lazy("numfmt", "rule_numbers"), ["cli"])],
    quick=["cli"],
    technique="finite-domain evaluation of number-formatting MIR over literal and double families vs parse-back equality",
)

reg(
    "C27",
    "translation_validation",
    "Only the JSON-output clause on YAML input, at the library's two printing entry points: for the cursors a navigation program yields (each document, its "
    "fields / elements, one level below) on the generated presentation space, DocumentCursor::stream_json (streamed straight from the YAML cursor) and to_owned_cursor + "
    "StreamableValue::stream_json (materialised first) must write the same text, compact and indented, with and without sort-keys. The CLI's route selection and "
    "route-forcing flags, JSON input (whose streamed route echoes raw bytes under a gate in the runner) and YAML output (where the streamed route keeps the source's "
    "styling by design) are not evaluated.",
    [only_cfgs(quick_family(_lazy("yamlload", "rule_route_json", n_quick=30)), ["cli"])],
    quick=["cli"],
    technique="finite-domain evaluation of the two printers' MIR on cursors of a generated document family (sibling agreement)",
)

reg(
    "C21",
    "translation_validation",
    "DSVNAV evaluates Dsv::parse_with_config, rows()/fields() iteration, row(n) and DsvRow::get(i) (every n and i, incl. out of range) from MIR on "
    "every byte string up to a bounded length over {delimiter, quote, separator, letter, CR} for several configurations of distinct special bytes, "
    "plus texts crossing the 64-byte chunk and the rank blocks, against quote-aware splitting; random access must equal iteration and appending a "
    "record separator to a balanced non-empty text must change nothing. Bounded-exhaustive plus boundary texts, not all byte strings.",
    [only_cfgs(_lazy("dsvnav", "rule_dsvnav"), ["cli"])],
    quick=["cli"],
    technique="finite-domain evaluation of DSV index/cursor MIR, bounded-exhaustive over a special-byte alphabet, vs quote-aware splitting",
)

reg(
    "C07",
    "translation_validation",
    "JSONPOS evaluates json::light from MIR on valid documents and on arbitrary byte strings over a structural-character alphabet: ib_rank1 at "
    "every position and ib_select1 for every k (and k >= ones) against the interest bits themselves; ib_select1_from for every k and every hint "
    "0..=words+10 against ib_select1; on documents, cursor_at_offset for every byte offset and cursor_at_position for the equivalent line/column "
    "against 'the node with the greatest start not after that byte' from a reference scanner; text_position of every node is decided by JSONNAV. "
    "A family of inputs, exhaustive in k / position / hint per input.",
    [only_cfgs(_lazy("jsonnav", "rule_ibpos"), ["cli"]), only_cfgs(_lazy("jsonnav", "rule_nav", name="JSONNAV(positions)", positions_only=True), ["cli"])],
    quick=["cli"],
    technique="finite-domain evaluation of rank/select/offset-lookup MIR over an input family, exhaustive in k, position and hint per input",
)


reg(
    "C17",
    "translation_validation",
    "The pure rank/select helpers under the YAML position tables (AdvancePositions::{advance_rank1, ib_rank1, ib_select1_with_state, advance_select1} and the sibling "
    "copies CompactEndPositions::{advance_rank1, ib_select1_with_state}) are evaluated from MIR on structs assembled from the documented field invariants, for every bitmap of a "
    "bounded family (0-3 words of boundary patterns; longer all-ones / alternating bitmaps that cross the select sample rate) and every argument up to two past the end, against "
    "rank/select defined by counting bits; both in-word select paths (PDEP and portable) are exercised. Sibling copies therefore agree. POSTAB evaluates the tables built by "
    "their own constructors (OpenPositions / AdvancePositions / EndPositions) with get in ascending, descending, alternating and skipping access orders — the sequential-cursor "
    "cache against the random path — plus cursors and find_last_open_at_text_pos, against the plain list, on lists whose text length is and is not a multiple of 64.",
    [only_cfgs(_lazy("ranktab", "rule_ranktab"), ["cli"]), only_cfgs(_lazy("postab", "rule_positions"), ["cli"])],
    quick=["cli"],
    technique="bounded-exhaustive finite-domain evaluation of helper MIR vs bit-counting definitions (sibling agreement)",
)


reg(
    "C03",
    "translation_validation",
    "The Elias-Fano sequence is evaluated from MIR (EFTAB): build, then len / universe / get(i) for every i / predecessor(v) around every sampled element / iteration, and "
    "cursors driven through every operation sequence of length 2 (3 in the thorough tier) over advance_one, advance_by(k) for k in {0,1,2,3,5,63,64,65,70}, seek and cursor_from, "
    "against the plain-sequence model, on a family of sequences (empty, singletons, duplicates, dense, sparse with all-zero high-bits words, up to u32::MAX, lengths crossing the "
    "64-bit word and the select sample rate). Bounded-exhaustive, not all inputs. Plus structural clauses of the cursor: on every path that stores a position to `high_pos`, that position is trailing_zeros of the value kept in "
    "`remaining_bits`, or `remaining_bits` is masked by a mask computed from that position (COUPLED: the representation invariant 'lowest set bit of remaining_bits is "
    "the current element' is re-established by every mutation path of advance_one / advance_by / seek / cursor / cursor_from); the sampled select reader divides by the "
    "builder's rate (SAMPLEIDX). Encoding/decoding arithmetic and predecessor search are not decided.",
    [
        only_cfgs(_lazy("structrules", "rule_cursor_coupling"), ["cli"]),
        only_cfgs(_lazy("structrules", "rule_sampleidx", floor=9), ["cli"]),
        only_cfgs(_lazy("eftab", "rule_ef"), ["cli"]),
    ],
    quick=["cli"],
    technique="bounded-exhaustive finite-domain evaluation of the structure's MIR incl. cursor histories; def-use coupling (typestate) rule over MIR field stores; sample-index derivation rule",
)


reg(
    "C12",
    "translation_validation",
    "LINETAB evaluates text::lines::LineIndex from MIR: build, then to_line_column under bounded query histories (each answer checked against a naive LF/CR/CRLF scan, "
    "so dependence on the cached previous query shows), to_offset round trip, line_start, line_count — every text up to length 4 (thorough 5) over {LF, CR, letter} with every "
    "ordered pair of offsets, and 70-line texts in every break mix with forward jumps around the cache's walk cap (read from the crate), backward jumps, repeats and offsets "
    "past the end. Structural clauses: the three line-break helpers on every window (CLASS), build reaches the shared rule (REACH), one comparison relation between line "
    "starts and the query (CMPCONSIST). Histories longer than three queries are not decided.",
    [
        only_cfgs(_lazy("linetab", "rule_lines"), ["cli"]),
        only_cfgs(_lazy("linesrules", "rule_line_break_class"), ["cli"]),
        only_cfgs(_lazy("linesrules", "rule_cmp_consistency"), ["cli"]),
    ],
    quick=["cli"],
    technique="finite-domain evaluation of LineIndex MIR under bounded query histories vs a naive scan; contradiction rule over MIR comparisons",
)


reg(
    "C23",
    "translation_validation",
    "JQEVAL evaluates both evaluators from MIR and compares them: jq::parser::parse gives the AST, jq::eval::eval::<Vec<u64>, JqSemantics> (library) and "
    "jq::eval_generic::eval_with_cursor (the CLI's evaluator) run on the same JsonCursor, each result is materialised by its own collect_owned() and its ending read off "
    "its variant (normal end, error message, break, halt, partial output then one of those); values and endings must agree. Family: 260 programs from the core grammar "
    "(paths, slices, iteration, pipes, comma, construction, arithmetic, comparison, boolean ops, alternative, conditionals, try/catch, reduce/foreach, label/break, optional, "
    "~120 builtins) x JSON inputs incl. duplicate keys and edge numbers (a third of the 280 programs, and every program of the first 22, x 10 inputs, evaluated by forked workers; both tiers: the full 280 x 33 product did not complete in the evaluator within a session and is not registered). Pairs needing an unmodelled std / "
    "external item (regex, io, env, a step budget) are skipped and counted; the rule fails closed below 85% evaluated (quick; 75% thorough). FALLBACK: the catch-all edges of eval_single / "
    "eval_builtin reach the full evaluator on every path. A program family, not the language.",
    [
        only_cfgs(quick_family(_lazy("jqeval", "rule_evaluators")), ["cli"]),
        only_cfgs(_lazy("cgrules", "rule_fallback", functions=[("jq::eval_generic::eval_single", r"jq::expr::Expr\b"), ("jq::eval_generic::eval_builtin", r"jq::expr::Builtin\b")]), ["cli"]),
    ],
    quick=["cli"],
    technique="finite-domain evaluation of parser and both evaluators' MIR on a program x input family (sibling agreement); must-pass-through dispatch rule on the MIR CFG",
)


reg(
    "C18",
    "translation_validation",
    "The strict YAML validator (yaml::validate::validate) is evaluated from MIR on a generated family of well-formed documents covering every presentation kind "
    "of the property's space (block/flow collections, plain/single/double quoted/literal/folded scalars, comments, blank lines, LF/CRLF/CR, anchors+aliases, markers, "
    "multi-document streams; 154 documents) — each must be accepted — and on truncations and single-byte substitutions of them, where it must terminate within the step "
    "budget, never panic, and report errors whose line/column are those of the offset; its flow recursion is guarded by an error-returning depth test (REC). "
    "Finite generated family, not the whole presentation space; the SIMD kernels it shares with the loader are evaluated at both dispatch levels.",
    [
        only_cfgs(_lazy("yamlval", "rule_yaml_validator"), ["cli"]),
        only_cfgs(_lazy("cgrules", "rule_rec", entries=[r"^yaml::validate::validate$"], name="REC(yaml::validate)", scope=r"^yaml::validate::"), ["cli"]),
    ],
    quick=["cli"],
    technique="finite-domain evaluation of validator MIR on a generated well-formed family and its mutations; call-graph SCC guard dominance",
)


reg(
    "C11",
    "translation_validation",
    "JQPRINT evaluates the identity fast path from MIR: JsonIndex::build, then the CLI's lazy cursor printer jq_runner::print_json with the jq-compatible "
    "literal formatter under compact / indent / tab / ascii-output configurations; the text read by Python's json must equal the input's value with duplicate keys "
    "collapsed as jq does (first position, last value), numbers equal as doubles, strings identical, ASCII-only under ascii-output. Family: C06's documents plus every "
    "object of up to 4 (thorough 5) fields over three keys, nested duplicates, keys equal only after unescaping, a 300-field object with a late duplicate. "
    "REACH + CHARMAP: every JSON string-body writer reachable from the jq print routes is one of the four tabulated writers. The owned-value printer behind "
    "sort-keys and the NUL/seq separators are not evaluated (indexmap is outside the facts).",
    [
        only_cfgs(_lazy("jqprint", "rule_print"), ["cli"]),
        only_cfgs(_lazy("charmap", "rule_writer_registry"), ["cli"]),
        only_cfgs(_lazy("charmap", "rule_json_writers"), ["cli"]),
    ],
    quick=["cli"],
    technique="finite-domain evaluation of index + printer MIR over a document family vs a conforming parser; who-may-escape reachability over the resolved call graph",
)
reg(
    "C15",
    "translation_validation",
    "Only the plain-vs-quoted clause: every decider from whose result a yq YAML emitter chooses between writing a string raw and quoting it (yq_runner::yaml_quote_string, "
    "yq_runner::yaml_quote_key, jq::stream::needs_yaml_quoting, yaml::light::needs_yaml_quoting) is evaluated from MIR on a string family covering every spelling the loader's "
    "plain-scalar resolver recognises (with prefix/suffix/case variants), every ASCII character as first/last/only character, and the lexical hazards; whenever a value is let through "
    "plain, the loader's own yaml::scalar::resolve_plain (evaluated from MIR) must resolve it to a string, and the text must be lexically a plain scalar for this loader. "
    "YAMLEMIT decides the identity clause on a sample of the generated presentation space: load, print with YamlCursor::stream_yaml_document (indent 2 and 4; "
    "thorough 1..7), load the printed text again, compare with the first load's JSON (block structure, indentation indicators, re-quoting, anchors and aliases "
    "as printed). YQDOM(write) decides the write clause on a family: yq_runner::evaluate_yaml_direct_filtered (index, per-document cursor, the generic evaluator under "
    "YqSemantics, presentation reconciliation, anchor soundness) and yq_runner::output_value (the DOM YAML emitter; the configuration comes from OutputConfig::from_args "
    "evaluated on -o / -I) on named documents (flow, quoted, commented, anchored, block-scalar nodes) and generated streams x write programs derived from each "
    "document's own container paths (assignment to new and existing paths, +=, *=, |=, del) x -I 2, 4, 0 (both tiers): the YAML printed must load back to the value "
    "the JSON printer gives for the same run. Results that are root scalars are skipped (the documented root-scalar shortcut, a known finding of YAMLEMIT).",
    [only_cfgs(_lazy("yamlquote", "rule_yaml_quoting"), ["cli"]), only_cfgs(_lazy("yamlemit", "rule_emit"), ["cli"]), only_cfgs(quick_family(_lazy("yqdom", "rule_write")), ["cli"])],
    quick=["cli"],
    technique="finite-domain evaluation of writer deciders, the reader's resolver, the streaming emitter and the yq runner's evaluate-and-print core from MIR (writer/reader agreement)",
)


def run(pid, tier, only=None, replay=None):
    if pid not in REGISTRY:
        print("property %s is not claimed (see MANIFEST.not_applicable)" % pid)
        return 2
    r = REGISTRY[pid]
    return harness.run_property(
        pid, tier, r["rules"], r["level"], r["explanation"], r["quick"], r["thorough"], only=only,
    )
