"""JQEVAL (C23) — the two jq evaluators evaluated from MIR and compared: `jq::parser::parse`
gives the AST; `jq::eval::eval::<Vec<u64>, JqSemantics>` (library) and
`jq::eval_generic::eval_with_cursor` (the evaluator the CLI uses) run on the same `JsonCursor`;
each result is materialised with its own `collect_owned()` and its ending is read off its
variant (normal end, error with message, break, halt, partial output then one of those).  The
two must give the same sequence of values and the same ending.  Family: a program list drawn
from the core grammar (paths, slices, iteration, pipes, comma, construction, arithmetic,
comparison, boolean ops, alternative, conditionals, try/catch, reduce/foreach, label/break,
optional, ~120 builtins) crossed with JSON inputs that include duplicate keys, edge numbers,
nesting and every scalar kind.  A (program, input) pair that needs a std or external-crate item
the evaluator does not model is skipped and counted; the rule fails closed if fewer than the
floor share of pairs can be evaluated.  A family, not all programs."""
import json

from .harness import RuleResult
from .minimir import Adt, Interp, Panic, Slice, Unsupported, UninitBox
from .stdmodel import MapVal, StrBuf, deref, tmp_ref

PROGRAMS = [
    "map(keys_unsorted)", "map(keys)", "map(.x|keys_unsorted)?", "[.[]|keys_unsorted]?", "map(to_entries)?", "map(length)", "map(keys_unsorted|length)?",
    "keys|.[0]", "keys|.[1]", "keys|.[2]", "keys|.[3]", "keys|.[6]", "keys|.[-1]", "keys_unsorted|.[1]", "keys|.[5]", "[keys|.[0,1,2,3]]", ".[][(0,1):]?", ".[(0,1):(2,3)]", "[.[]?|.[(0,1):]?]", ".[(1,0)]?", ".[(0,1)]?", "[.[1:][(0,1)]?]",
    ".", ".a", ".a.b", ".[0]", ".[-1]", ".[1:]", ".[:2]", ".[1:3]", ".a[1:]", ".[]", ".a[]", "..", ".a?", ".[]?", '."a"', '.["a"]', ".a.b.c?", ".[0][0]", ".[2:1]", ".[-2:]",
    ".a,.b", ".[]|.a?", "(.a,.b)|type", ".[] | select(type==\"number\")", ".a as $x | $x", ". as [$a,$b] | $b", ". as {a:$x} | $x",
    "[.[]]", "{a:.a}", "{(.k):1}?", "[.a,.b]", "{a:1,b:[.]}", "[.[]?|type]", "{a,b}", "[..]",
    ".a+1", ".a*2", ".a-.b", ".a/2", ".a%3", '"x"+"y"', "[1]+[2]", "{a:1}+{b:2}", ". - [1]", ".a+null", "null+1", '. * 2', '"ab" * 3', '"a,b" / ","', "{a:{b:1}} * {a:{c:2}}", "1/0", "5%0", ". + .", "-(.a)", ".[0]+.[1]",
    ".a==.b", ".a<.b", ". == null", ".a!=1", ".[0]<=.[1]", '"a"<"b"', "[1]<[1,0]", "{}<[]", "null<false", ".a>=.b",
    "if .a then 1 else 2 end", "if . then 1 elif .a then 2 else 3 end", '.a // "d"', ".a and .b", ".a or .b", "not", "if .a then 1 end", "(.a // empty)", "[.[]|not]", "first(.[]?) // 0",
    'try error("x") catch .', ".a? // 1", "try (.[]|error) catch .", "try error catch .", 'try error({a:1}) catch .a', "[.[]|try tonumber catch \"e\"]", "(try error(\"x\") catch .) | length", ".[]|error?", 'error("boom")', "error", "try (1,error(\"x\"),3) catch .",
    "reduce .[] as $x (0; .+$x)", "foreach .[] as $x (0; .+$x)", "[limit(2;.[])]", "first(.[])", "[foreach .[] as $x (0; .+1; [$x,.])]", "reduce range(5) as $i ([]; .+[$i])", "[range(3)]", "[range(1;10;3)]", "[range(0)]", "until(.>100; .*2)", "[.[]|numbers]",
    "label $f | .[] | if .>1 then break $f else . end", "[label $f | range(10) | ., (select(.==3)|break $f)]", "first(range(10;0;-1))", "[.[] as $x | $x]", "isvalid(.a)", "[limit(0;.[])]", "nth(1;.[])", "[.[]|select(.>1)]", "last(.[])",
    "length", "keys", "keys_unsorted", "values", "type", "add", "map(.+1)", "map_values(.+1)", "to_entries", "from_entries", "with_entries(.value|=.+1)", 'has("a")', "has(0)", 'map(has("a"))?', "contains([1])", 'contains("b")', "inside([1,2,3])",
    "tostring", "tonumber", "ascii_downcase", "ascii_upcase", 'ltrimstr("a")', 'rtrimstr("c")', 'startswith("a")', 'endswith("c")', 'split(",")', 'join("-")', "reverse", "sort", "sort_by(.a)", "group_by(.a)", "unique", "unique_by(.a)", "min", "max", "min_by(.a)", "max_by(.a)",
    "flatten", "flatten(1)", "floor", "sqrt", "tojson", "fromjson", "explode", "implode", 'indices(1)', 'index("b")', 'rindex("b")', "paths", "leaf_paths", "[paths(type==\"number\")]", 'getpath(["a","b"])', 'setpath(["a"];1)', 'delpaths([["a"]])', "del(.a)", "del(.[0])", "to_entries|map(.key)",
    "any", "all", "any(.>1)", "all(.>0)", "empty", "[empty]", "recurse", "[recurse(.[]?)]", "env|type", "@base64", "@base64d", "@uri", "@csv", "@tsv", "@html", "@json", "@text", "@sh", '@json "v=\\(.)"', '"a\\(.)b"',
    "[tostream]", "fromstream(tostream)", "[.[]|tostring]", "[.[]|tojson]", "walk(if type==\"number\" then .+1 else . end)", "transpose", "first", "last", "nth(0)", "[combinations]", "abs", "toarray", "trim", "ltrim", "rtrim", "ascii", "splits(\",\")?",
    ".a |= .+1", ".a = 5", ".[0] += 1", ".a //= 3", ".[] |= .+1", "del(.[] | select(. == 1))", ".a.b |= 2", ".[1:] = [9]", "to_entries[0]", "path(.a)", "[path(..)]", "pick(.a)?", "getpath([\"x\",\"y\"])", "input_line_number?", "$__loc__", "[.[]|type]", "ltrimstr(1)", "utf8bytelength", "tojson|fromjson", "[splits(\"a\")]?", "ascii_downcase?", "limit(1;.[]?)", "[.[]?]|length", "infinite", "nan|isnan", "[.[]|isinfinite?]", "now|type", "halt_error?", "[getpath([\"a\"],[\"b\"])]", "map(select(.))?", "to_entries|from_entries", "with_entries(.)", "add(.[]?)", "[.[]|length?]", "[.[]|tostring|length]", "@text \"x\"", "ascii(65)?", "significand?", "exp10?", "pow(2;10)", "log2?", "[.[]|floor?]", "splits?", "test(\"a\")?", "ltrimstr(\"x\")|rtrimstr(\"x\")", "min_by(.)?", "group_by(.)?", "unique_by(length)?", "[.[]|tojson|fromjson]", "getpath([0])?", "paths(..)?", "tostream|tojson", "[limit(3;repeat(1))]", "[limit(5;recurse(.+1;.<3))]?", "while(.<3;.+1)?", "[.[]|ascii_downcase?]", "input?", "debug|type", "stderr|type", "[splits(\", \")]?",
]

INPUTS = [
    '[{"b":1,"a":2},{"z":0,"m":1,"c":2}]', '{"p":{"b":1,"a":2},"q":{"z":0,"c":2}}',
    "null", "true", "0", "1.5", "-3", '"abc"', '""', '"é"', '"a,b,c"', "[]", "[1,2,3]", "[3,1,2]", "[[1],[2,[3]]]", '{"a":1,"b":2}', '{"a":{"b":[1,2]}}', '{"a":1,"a":2}', '[1,"a",null,true,{"a":1},[2]]',
    '{"k":"a","a":1,"b":null}', "9007199254740993", "[1e1000,-0,0.1,1e-7,100000000000000000000]", '[{"a":1,"b":"x"},{"a":1,"b":"y"},{"a":0}]', '{"a":[{"b":1},{"b":2}],"c":{"a":null}}', '["b","a","c","a"]', '{"a":false,"b":0,"c":"","d":[],"e":{}}', "[[1,2],[3,4]]", '"  padded  "', '[[0,1],[1,0]]', '{"b":{"y":1,"x":2,"y":3},"a":[{"k":1,"k":2}]}', "[null,null]", "3", "[0,1,2,3,4,5,6,7,8,9]",
]


def ov(I, v):
    """OwnedValue Adt -> canonical python value (objects as ('obj', [(k, v)...]) in map order)."""
    if isinstance(v, Adt):
        n = v.vname
        if n == "Null":
            return None
        if n == "Bool":
            return bool(v.fields[0])
        if n == "Int":
            return ("num", float(v.fields[0]), str(v.fields[0]))
        if n == "Float":
            f = float(v.fields[0])
            return ("num", f if f == f else "nan", None)
        if n == "NumberLiteral":
            b = v.fields[1]
            if isinstance(b, UninitBox):
                b = b.cell[0]
            sb = b.b if isinstance(b, StrBuf) else (b.heap[b.start:b.start + b.len] if isinstance(b, Slice) else None)
            if sb is None:
                raise Unsupported("NumberLiteral payload %r" % (b,))
            t = bytes(sb).decode()
            try:
                return ("num", float(t), None)
            except ValueError:
                return ("numlit", t)
        if n == "String":
            return bytes(v.fields[0].b).decode("utf-8", "surrogatepass") if isinstance(v.fields[0], StrBuf) else ("opaque-string",)
        if n == "Array":
            return [ov(I, x) for x in v.fields[0]]
        if n == "Object":
            m = v.fields[0]
            if not isinstance(m, MapVal):
                raise Unsupported("Object payload %r" % (m,))
            return ("obj", [(bytes(deref(I, k).b).decode("utf-8", "surrogatepass"), ov(I, x)) for k, x in m.d.values()])
    raise Unsupported("OwnedValue %r" % (v,))


def canon(x):
    """numbers compare as doubles"""
    if isinstance(x, tuple) and x and x[0] == "num":
        return ("num", x[1])
    if isinstance(x, tuple) and x and x[0] == "obj":
        return ("obj", [(k, canon(v)) for k, v in x[1]])
    if isinstance(x, list):
        return [canon(v) for v in x]
    return x


def ending(I, r):
    """(kind, detail) of a QueryResult / GenericResult"""
    n = r.vname
    if n == "Error":
        e = r.fields[0]
        msg = e.fields[0]
        return ("error", bytes(msg.b).decode("utf-8", "replace") if isinstance(msg, StrBuf) else "<opaque>")
    if n == "Break":
        return ("break", bytes(r.fields[0].b).decode() if isinstance(r.fields[0], StrBuf) else "?")
    if n == "Halt":
        return ("halt", r.fields[0])
    if n == "Partial":
        c = r.fields[1]
        if c.vname == "Error":
            msg = c.fields[0].fields[0]
            return ("error", bytes(msg.b).decode("utf-8", "replace") if isinstance(msg, StrBuf) else "<opaque>")
        if c.vname == "Break":
            return ("break", bytes(c.fields[0].b).decode() if isinstance(c.fields[0], StrBuf) else "?")
        if c.vname == "Halt":
            return ("halt", c.fields[0])
        return (c.vname, None)
    return ("end", None)


def run_pair(I, expr, doc):
    b = doc.encode("utf-8")
    js = Slice(list(b), 0, len(b))
    ix = I.call("json::light::JsonIndex::build", [js])
    rix = tmp_ref(ix)
    out = []
    for side in ("lib", "gen"):
        cur = I.call("json::light::JsonIndex::<W>::root", [rix, js])
        if side == "lib":
            r = I.call("jq::eval::eval", [tmp_ref(expr), cur], gen={"W": "std::vec::Vec<u64>", "S": "jq::eval::JqSemantics"})
            end = ending(I, r)
            vals = I.call("jq::eval::QueryResult::<'_, W>::collect_owned", [r], gen={"W": "std::vec::Vec<u64>"})
        else:
            r = I.call("jq::eval_generic::eval_with_cursor", [tmp_ref(expr), cur], gen={"C": "json::light::JsonCursor<'a, std::vec::Vec<u64>>"})
            # lazy stages (`map`, `keys`, ...) raise their errors only when drained: normalise first, as every consumer does
            r = I.call("jq::eval_generic::GenericResult::<V>::materialize_lazy", [r], gen={"V": "json::light::StandardJson<'a, std::vec::Vec<u64>>"})
            end = ending(I, r)
            vals = I.call("jq::eval_generic::GenericResult::<V>::collect_owned", [r], gen={"V": "json::light::StandardJson<'a, std::vec::Vec<u64>>"})
        out.append(([canon(ov(I, v)) for v in vals], end))
    return out


_G = {}


def _eval_program(prog):
    """One program against every input (runs in a forked worker: the program model is inherited, the
    interpreter is the worker's own)."""
    P, inputs, name = _G["P"], _G["inputs"], _G["name"]
    I = _G.get("I")
    if I is None:
        I = _G["I"] = Interp(P, max_steps=500000, max_depth=500)
        I.features = {"avx2": True, "bmi2": True, "sse4.1": True, "sse4.2": True, "ssse3": True, "sse2": True}
    r = {"bad": [], "ok": 0, "skip": 0, "parse_fail": 0, "skipped": {}, "examples": {}}
    pb = prog.encode("utf-8")
    try:
        pr = I.call("jq::parser::parse", [Slice(list(pb), 0, len(pb))])
    except (Unsupported, Panic, KeyError, IndexError, AttributeError, TypeError, RecursionError) as e:
        r["skip"] += len(inputs)
        r["skipped"][str(e)[:80]] = 1
        return r
    if not (isinstance(pr, Adt) and pr.vname == "Ok"):
        r["parse_fail"] += 1
        return r
    expr = pr.fields[0]
    for doc in inputs:
        I.statics.clear()
        try:
            (lv, le), (gv, ge) = run_pair(I, expr, doc)
        except Panic as e:
            r["bad"].append(("%s:panic:%s@%s" % (name, prog, doc), "evaluating `%s` on %s panics: %s" % (prog, doc[:60], e)))
            continue
        except (Unsupported, KeyError, IndexError, AttributeError, TypeError, RecursionError, ValueError, OverflowError) as e:
            r["skip"] += 1
            k_ = str(e)[:90]
            if k_ not in r["skipped"]:
                r["examples"][k_] = (prog, doc[:40])
            r["skipped"][k_] = r["skipped"].get(k_, 0) + 1
            continue
        r["ok"] += 1
        if lv != gv or le != ge:
            r["bad"].append(("%s:%s@%s" % (name, prog, doc), "`%s` on %s: library gives %s ending %r, the CLI evaluator gives %s ending %r" % (prog, doc[:80], repr(lv)[:200], le, repr(gv)[:200], ge)))
    return r


def rule_evaluators(progs, tier, name="JQEVAL", floor_share=None):
    import multiprocessing as _mp
    import os as _os

    if floor_share is None:
        # measured: 91 % of the quick family is evaluated; a model that stops covering a builtin family shows as a drop
        floor_share = 0.85 if tier != "thorough" else 0.75
    out = []
    for cfg, P in progs.items():
        res = RuleResult(name, cfg)
        out.append(res)
        progs_ = PROGRAMS if tier == "thorough" else PROGRAMS[:22] + PROGRAMS[22::3] + ["..", "map(.+1)", "reverse", "unique", "flatten"]
        inputs = INPUTS if tier == "thorough" else ["null", "[]", '[{"b":1,"a":2},{"z":0,"m":1,"c":2}]', "[3,1,2]", '{"a":1,"b":2}', '{"a":1,"a":2}', '"abc"', '[1,"a",null,true,{"a":1},[2]]', '{"a":{"b":[1,2]}}', "1.5"]
        _G.clear()
        _G.update({"P": P, "inputs": inputs, "name": name})
        jobs = int(_os.environ.get("VERIF_JOBS", "0")) or max(1, min(8, (_os.cpu_count() or 2) - 2))
        if jobs > 1:
            # programs are independent: fork workers after the program model is loaded (results keep program order);
            # the collector is frozen so that the workers' collections do not touch (and copy) the inherited pages
            import gc as _gc

            _gc.collect()
            _gc.freeze()
            try:
                with _mp.get_context("fork").Pool(jobs) as pool:
                    results = pool.map(_eval_program, progs_, chunksize=1)
            finally:
                _gc.unfreeze()
        else:
            results = [_eval_program(p_) for p_ in progs_]
        n_ok = n_skip = n_parse_fail = 0
        skipped = {}
        examples = {}
        for r in results:
            n_ok += r["ok"]
            n_skip += r["skip"]
            n_parse_fail += r["parse_fail"]
            for k_, c_ in r["skipped"].items():
                skipped[k_] = skipped.get(k_, 0) + c_
            for k_, ex_ in r["examples"].items():
                examples.setdefault(k_, ex_)
            for key, msg in r["bad"]:
                res.bad(key, msg)
        res.cells += n_ok
        res.engines += 2
        total = n_ok + n_skip
        for k_, c_ in sorted(skipped.items(), key=lambda kv: -kv[1])[:12]:
            res.note("skipped %d pairs: %s (e.g. `%s` on %s)" % ((c_, k_) + examples.get(k_, ("?", "?"))))
        if total == 0 or n_ok / total < floor_share:
            res.bad("%s:coverage" % name, "only %d of %d (program, input) pairs could be evaluated (floor %.0f%%): the std/crate model no longer covers the evaluators (fail closed)" % (n_ok, total, floor_share * 100))
        res.ok({"programs": len(progs_), "inputs": len(inputs), "pairs_compared": n_ok, "pairs_skipped_unmodelled": n_skip, "programs_not_parsed": n_parse_fail, "workers": jobs})
    return out


DATE_PROGRAMS = [
    'strftime("%A %a %B %b %j %Y")', 'strftime("%Y-%m-%dT%H:%M:%SZ")', 'strftime("%e %u %w %Z %H %I %p %M %S %y %C %d %m")', "mktime", "todate", "gmtime", "gmtime|mktime",
    "todate|fromdate", 'strptime("%Y-%m-%dT%H:%M:%SZ")?', 'strptime("%A, %B %d, %Y")?', "todateiso8601?", "fromdateiso8601?", "dateadd(\"seconds\"; 1)?", "localtime?", "strflocaltime(\"%A\")?",
]
DATE_INPUTS = [
    "[2015,2,5,23,51,47,-3,63]", "[2015,2,5,23,51,47,-8,-1]", "1425599507", "[2015,13,40,25,61,61,9,400]", '"2015-03-05T23:51:47Z"', "-1e12", "1e18", "[-1,-1,-1,-1,-1,-1,-1,-1]",
    "[2015,2,5]", "[1e300,0,1,0,0,0,0,0]", '"Thursday, March 05, 2015"', "null", "0.5", "[2015.7,2.2,5.9,23,51,47.5,4.5,63]",
]


def rule_no_panic(progs, tier, name="JQPANIC(dates)", floor_share=0.7):
    """C30 on the date / time builtins (index tables of weekday and month names, field arithmetic on
    broken-down times): every program x input through both evaluators; a panic anywhere is the violation
    (value agreement of the two evaluators is C23's and reported there)."""
    out = []
    for cfg, P in progs.items():
        res = RuleResult(name, cfg)
        out.append(res)
        _G.clear()
        _G.update({"P": P, "inputs": DATE_INPUTS, "name": name})
        n_ok = n_skip = 0
        reasons = {}
        for prog in DATE_PROGRAMS:
            r = _eval_program(prog)
            n_ok += r["ok"]
            n_skip += r["skip"]
            for k_, c_ in r["skipped"].items():
                reasons[k_] = reasons.get(k_, 0) + c_
            for key, msg in r["bad"]:
                if ":panic:" in key:
                    res.bad(key, msg)
        _G.clear()
        for k_, c_ in sorted(reasons.items(), key=lambda kv: -kv[1])[:8]:
            res.note("skipped %d pairs: %s" % (c_, k_))
        total = n_ok + n_skip
        if total == 0 or n_ok / total < floor_share:
            res.bad("%s:coverage" % name, "only %d of %d (program, input) pairs could be evaluated (floor %.0f%%) (fail closed)" % (n_ok, total, floor_share * 100))
        res.cells += n_ok
        res.engines += 2
        res.ok({"programs": len(DATE_PROGRAMS), "inputs": len(DATE_INPUTS), "pairs_evaluated": n_ok, "pairs_skipped_unmodelled": n_skip})
    return out
