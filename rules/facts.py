"""Fact extraction management: run the mirfacts driver over /repo (or VERIF_REPO) for the
configurations a check needs, keyed by a hash of the source tree, and load the facts."""
import fcntl
import hashlib
import json
import os
import shutil
import subprocess
import sys
import time

VERIF = os.path.dirname(os.path.dirname(os.path.abspath(__file__)))
REPO = os.environ.get("VERIF_REPO", "/repo")
BUILD = os.environ.get("VERIF_BUILD", os.path.join(VERIF, "build"))
DRIVER = os.path.join(VERIF, "mirfacts", "target", "release", "mirfacts")

# configuration name -> cargo check arguments
CONFIGS = {
    "cli": ["--lib", "--bins", "--features", "cli,regex"],
    "default": ["--lib"],
    "simd": ["--lib", "--features", "simd"],
    "portable": ["--lib", "--features", "portable-popcount"],
    "scalar": ["--lib", "--features", "scalar-yaml"],
    "nodefault": ["--lib", "--no-default-features"],
    "serde": ["--lib", "--features", "serde"],
    "full": ["--lib", "--features", "simd,cli,regex,serde"],
}
QUICK_CONFIGS = ["cli", "default", "simd"]
THOROUGH_CONFIGS = ["cli", "default", "simd", "portable", "scalar", "nodefault", "serde", "full"]

RUSTFLAGS = "-Zmir-opt-level=0 -Awarnings -Cdebug-assertions=off -Coverflow-checks=off"


def tree_hash(repo=None):
    repo = repo or REPO
    h = hashlib.sha256()
    paths = []
    for root, dirs, files in os.walk(os.path.join(repo, "src")):
        dirs.sort()
        for f in sorted(files):
            paths.append(os.path.join(root, f))
    for extra in ("Cargo.toml", "Cargo.lock", "build.rs"):
        p = os.path.join(repo, extra)
        if os.path.exists(p):
            paths.append(p)
    for p in paths:
        h.update(os.path.relpath(p, repo).encode())
        h.update(b"\0")
        with open(p, "rb") as fh:
            h.update(fh.read())
        h.update(b"\0")
    # the driver is part of the key: new driver => new facts
    if os.path.exists(DRIVER):
        st = os.stat(DRIVER)
        h.update(("%d:%d" % (st.st_size, int(st.st_mtime))).encode())
    h.update(RUSTFLAGS.encode())
    return h.hexdigest()[:20]


def sysroot():
    return subprocess.check_output(["rustc", "+nightly", "--print", "sysroot"], text=True).strip()


def ensure_driver():
    if not os.path.exists(DRIVER):
        subprocess.check_call(
            ["cargo", "+nightly", "build", "--release", "--offline"],
            cwd=os.path.join(VERIF, "mirfacts"),
            env=dict(os.environ, CARGO_NET_OFFLINE="true"),
        )


def _extract_one(cfg, outdir, repo):
    tdir = os.path.join(BUILD, "target-" + cfg)
    os.makedirs(tdir, exist_ok=True)
    # cargo's freshness cache would skip the wrapper: drop the workspace member's fingerprints
    dbg = os.path.join(tdir, "debug")
    fp = os.path.join(dbg, ".fingerprint")
    if os.path.isdir(fp):
        for d in os.listdir(fp):
            if d.startswith("succinctly-"):
                shutil.rmtree(os.path.join(fp, d), ignore_errors=True)
    shutil.rmtree(os.path.join(dbg, "incremental"), ignore_errors=True)
    os.makedirs(outdir, exist_ok=True)
    env = dict(os.environ)
    env.update(
        LD_LIBRARY_PATH=os.path.join(sysroot(), "lib"),
        RUSTFLAGS=RUSTFLAGS,
        RUSTC_WORKSPACE_WRAPPER=DRIVER,
        MIRFACTS_OUT=outdir,
        CARGO_TARGET_DIR=tdir,
        CARGO_NET_OFFLINE="true",
        CARGO_INCREMENTAL="0",
    )
    env.pop("RUSTC_WRAPPER", None)
    cmd = ["cargo", "+nightly", "check", "--offline"] + CONFIGS[cfg]
    return subprocess.Popen(cmd, cwd=repo, env=env, stdout=subprocess.PIPE, stderr=subprocess.STDOUT, text=True)


def ensure_facts(configs, repo=None):
    """Return {cfg: dir} of fact directories for the current tree, extracting if needed."""
    repo = repo or REPO
    ensure_driver()
    os.makedirs(BUILD, exist_ok=True)
    lock = open(os.path.join(BUILD, "lock"), "w")
    fcntl.flock(lock, fcntl.LOCK_EX)
    try:
        th = tree_hash(repo)
        base = os.path.join(BUILD, "facts", th)
        todo = []
        for cfg in configs:
            d = os.path.join(base, cfg)
            if not os.path.exists(os.path.join(d, "DONE")):
                shutil.rmtree(d, ignore_errors=True)
                todo.append(cfg)
        if todo:
            # prune facts of other trees
            froot = os.path.join(BUILD, "facts")
            if os.path.isdir(froot):
                for d in os.listdir(froot):
                    if d != th:
                        shutil.rmtree(os.path.join(froot, d), ignore_errors=True)
            procs = {cfg: _extract_one(cfg, os.path.join(base, cfg), repo) for cfg in todo}
            for cfg, p in procs.items():
                out, _ = p.communicate()
                if p.returncode != 0:
                    sys.stderr.write(out[-4000:])
                    raise SystemExit("fact extraction failed for configuration %s (cargo check exit %d)" % (cfg, p.returncode))
                d = os.path.join(base, cfg)
                if not os.path.exists(os.path.join(d, "succinctly-lib.json")):
                    sys.stderr.write(out[-4000:])
                    raise SystemExit("fact extraction produced no lib facts for %s (driver skipped?)" % cfg)
                with open(os.path.join(d, "DONE"), "w") as fh:
                    fh.write(th)
            # the tree must not have changed while we extracted
            if tree_hash(repo) != th:
                raise SystemExit("source tree changed during extraction")
        return {cfg: os.path.join(base, cfg) for cfg in configs}, th
    finally:
        fcntl.flock(lock, fcntl.LOCK_UN)
        lock.close()


def load_raw(d, which):
    p = os.path.join(d, "succinctly-%s.json" % which)
    if not os.path.exists(p):
        return None
    with open(p) as fh:
        return json.load(fh)
