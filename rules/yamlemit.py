"""YAMLEMIT (C15, identity clause) — the YAML emitter evaluated from MIR on the generated
presentation space (single-document streams whose root is a collection, so that the root-scalar
shortcut of `stream_yaml_as_document`, which deliberately drops the scalar's styling, stays out of
the random family and is covered by named documents): load (`YamlIndex::build`), print
(`YamlCursor::stream_yaml_document` with indentation 2 and 4; thorough 1..7), load the printed
text again, and compare its `to_json_document()` with the first load's — the printed YAML must
read back to the value `-o json` prints.  Aliases: the comparison is on resolved values, so an
alias that does not resolve to its anchor's value shows up as a mismatch or a load error.
Write programs (assignment, update, deletion, merge) are not evaluated: they run in the CLI's
runner and the jq evaluators, which E3 does not model."""
import json

from .harness import RuleResult
from .minimir import Adt, Interp, Panic, Slice, Unsupported
from .stdmodel import StrBuf, tmp_ref
from . import yamlgen
from .yamlload import load, same

NAMED = [
    ("root-scalar-quoted-number", "'-7'\n"),
    ("root-scalar-quoted-spaces", '"  both  "\n'),
    ("root-scalar-quoted-mapping-like", '"k: v"\n'),
    ("root-scalar-literal-indicator", "|-\n  - dash\n"),
    ("explicit-plain-key-document-marker", "? ... end\n: 1\n"),
    ("explicit-plain-key-document-start", "? --- doc\n: 1\n"),
    ("nested-literal-leading-space", "a:\n  b: |2-\n     lead\n    x\n"),
    ("literal-in-seq-in-map", "a:\n  - |\n    one\n    two\n  - >-\n    f1\n    f2\nb: 1\n"),
    ("anchors-nested", "x: &x {p: &y 1, q: 2}\nb: *x\nc: *y\n"),
    ("strings-needing-quotes", "- '0x2A'\n- '+.INF'\n- ' a'\n- 'a '\n- '#x'\n- 'a: b'\n- '- x'\n- 'null'\n- '~'\n- '1e3'\n- \"\\ttab\"\n- ''\n- '@at'\n- '`t'\n- '%p'\n- '!b'\n- '&a'\n- '*s'\n- '| p'\n- '> g'\n- '[b'\n- '{b'\n- ']'\n- '}'\n- ','\n- '? q'\n- ': x'\n- '... e'\n- '--- d'\n"),
    ("keys-needing-quotes", "'0x2A': 1\n'true': 2\n' a': 3\n'#x': 4\n'a: b': 5\n'- x': 6\n'%p': 7\n'|a': 8\n'>a': 9\n'? q': 10\n'': 11\n'null': 12\n'... e': 13\n'--- d': 14\n"),
]


def emit(I, root, width):
    out = StrBuf([])
    spec = Adt("jq::document::IndentSpec", 0, "IndentSpec", [width, 32])
    r = I.call("yaml::light::YamlCursor::<'a, W>::stream_yaml_document", [tmp_ref(root), tmp_ref(out), spec, 0], gen={"Out": "std::string::String"})
    if isinstance(r, Adt) and r.vname == "Err":
        return None
    return bytes(out.b)


def rule_emit(progs, tier, name="YAMLEMIT", n_quick=40, n_thorough=200):
    out = []
    for cfg, P in progs.items():
        res = RuleResult(name, cfg)
        out.append(res)
        I = Interp(P, max_steps=80000000, max_depth=300)
        widths = (1, 2, 3, 4, 5, 6, 7) if tier == "thorough" else (2, 4)
        want = n_thorough if tier == "thorough" else n_quick
        fam, dropped = yamlgen.streams(want * 3, seed0=5000, max_depth=3)
        fam = [(seed, text) for seed, text, docs in fam if len(docs) == 1 and isinstance(docs[0], (dict, list)) and docs[0]][:want]
        if len(fam) < want * 0.6:
            res.bad("%s:family" % name, "the generator produced only %d of %d single-document collection streams (fail closed)" % (len(fam), want))
            continue
        items = [(nm, text) for nm, text in NAMED] + fam
        nrun = 0
        flip = 0
        crashed = False
        for seed, text in items:
            key = ("%s:doc:%s" % (name, seed)) if isinstance(seed, str) else ("%s:stream-%d" % (name, seed))
            sd = "document %r" % seed if isinstance(seed, str) else "generated stream %d" % seed
            flip ^= 1
            I.features = {"avx2": bool(flip), "bmi2": bool(flip), "sse4.1": True, "sse4.2": True, "ssse3": True, "sse2": True}
            for f in ("util::simd::x86::has_fast_bmi2", "bits::scan::has_avx2"):
                I.overrides[f] = lambda a, f=flip: f
            I.overrides["yaml::simd::x86::avx2_enabled"] = lambda a, f=flip: f
            I.overrides["util::simd::escape::avx2_enabled"] = lambda a, f=flip: f
            I.statics.clear()
            data = text.encode("utf-8")
            try:
                js = Slice(list(data), 0, len(data))
                r = I.call("yaml::index::YamlIndex::build", [js])
                if not (isinstance(r, Adt) and r.vname == "Ok"):
                    continue  # not loadable: C14's business, not the emitter's
                ix = r.fields[0]
                root = I.call("yaml::index::YamlIndex::<W>::root", [tmp_ref(ix), js])
                j1 = I.call("yaml::light::YamlCursor::<'a, W>::to_json_document", [tmp_ref(root)])
                v1 = json.loads(bytes(j1.b).decode("utf-8", "replace"))
                for w in widths:
                    nrun += 1
                    t2 = emit(I, root, w)
                    if t2 is None:
                        res.bad(key, "the emitter fails on %s %r (indent %d)" % (sd, text[:120], w))
                        break
                    kind, val = load(I, t2)
                    if kind != "json":
                        res.bad(key, "%s %r is printed (indent %d) as %r, which the loader rejects: %r" % (sd, text[:120], w, t2[:160], val))
                        break
                    v2 = json.loads(val)
                    if not same(v1, v2):
                        res.bad(key, "%s %r is printed (indent %d) as %r, which loads as %s; `-o json` prints %s" % (sd, text[:120], w, t2[:160], json.dumps(v2)[:140], json.dumps(v1)[:140]))
                        break
            except Panic as e:
                res.bad(key, "emit / reload panics on %s %r: %s" % (sd, text[:120], e))
            except (Unsupported, KeyError, IndexError, AttributeError, TypeError, ValueError) as e:
                res.bad("%s:evaluate" % name, "cannot evaluate the emitter round trip on %s %r: %r" % (sd, text[:120], e))
                crashed = True
                break
        res.cells += nrun
        res.engines += 1
        res.ok({"streams": len(fam), "named_documents": len(NAMED), "indent_widths": list(widths), "round_trips": nrun})
    return out
