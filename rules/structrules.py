"""Structural rules over data-structure code: SAMPLEIDX (sampled-select index derivation),
TAILMASK, CTOR, LAYOUT, WIDTH."""
import re

from .core import op_place
from .dataflow import backward_slice, local_defs
from .harness import RuleResult

RATE_RE = re.compile(r"rate", re.I)
SAMPLES_RE = re.compile(r"samples", re.I)


def _is_pow2(v):
    return isinstance(v, int) and v > 0 and (v & (v - 1)) == 0


def rule_sampleidx(progs, tier, scope=r"", name="SAMPLEIDX", floor=5):
    """Writer/reader agreement for sampled select: a builder records every `rate`-th one, so a
    reader that looks up `samples[i]` must derive i as `k / rate` with that same rate.  A reader
    that derives i by shifting / masking (`k >> rate.trailing_zeros()`, `k & (rate-1)`) is only
    equivalent when the rate is a power of two: accepted iff the rate is a constant power of two,
    or every function that stores the rate field checks `is_power_of_two`."""
    out = []
    for cfg, P in progs.items():
        res = RuleResult(name, cfg)
        out.append(res)
        for f in sorted(P.fns.values(), key=lambda f: f.id):
            if f.crate != "lib" or (scope and not re.search(scope, f.id)):
                continue
            # index-like uses of a samples field
            for c in f.calls:
                nm = c.name
                if not (nm.endswith("::get") or nm.endswith("::index") or nm.endswith("::get_unchecked") or "Index" in nm):
                    continue
                if len(c.args) < 2:
                    continue
                rpl = op_place(c.args[0])
                if rpl is None:
                    continue
                rsl = backward_slice(f, rpl[0], max_nodes=20, through_calls=True)
                rfields = set(rsl.fields) | {e[2] for e in rpl[1] if isinstance(e, list) and e[0] == "f"}
                if not any(SAMPLES_RE.search(x) for x in rfields):
                    continue
                ipl = op_place(c.args[1])
                if ipl is None:
                    continue
                isl = backward_slice(f, ipl[0], max_nodes=60)
                rate_names = [x for x in (set(isl.names) | set(isl.fields)) if RATE_RE.search(x)]
                rate_consts = [k for k in isl.consts if k.get("item") and RATE_RE.search(k["item"])]
                if not rate_names and not rate_consts:
                    continue
                inst = {"reader": f.id, "samples": sorted(x for x in rfields if SAMPLES_RE.search(x)), "rate": sorted(rate_names) or [k["item"] for k in rate_consts]}
                key = "%s:%s" % (name, f.id)
                strength_reduced = any("trailing_zeros" in (cn or "") or "ilog2" in (cn or "") for _, cn in isl.calls) and ("Shr" in isl.binops)
                if "Div" in isl.binops and not strength_reduced:
                    inst["derivation"] = "k / rate"
                    res.ok(inst)
                    continue
                # strength-reduced derivation: needs a power-of-two rate
                if rate_consts and all(_is_pow2(k.get("v")) for k in rate_consts) and not rate_names:
                    inst["derivation"] = "shift/mask by a constant power-of-two rate"
                    res.ok(inst)
                    continue
                if _rate_checked_pow2(P, rate_names):
                    inst["derivation"] = "shift/mask; constructors check is_power_of_two"
                    res.ok(inst)
                    continue
                res.bad(key, "reader %s derives the sample index from `%s` by shift/mask instead of division, but nothing establishes that the rate is a power of two (builders sample every rate-th one for any rate)" % (f.id, ",".join(sorted(rate_names))), f.loc(c.line))
        res.require_floor(floor, "sampled-select reader sites")
    return out


def _rate_checked_pow2(P, rate_names):
    """True iff every function that writes a struct field with one of these names calls
    is_power_of_two (on any value) before the write."""
    found = False
    for f in P.fns.values():
        if f.crate != "lib":
            continue
        writes = False
        for _, _, s in f.stmts():
            if s[0] != "a":
                continue
            for e in s[1][1]:
                if isinstance(e, list) and e[0] == "f" and e[2] in rate_names:
                    writes = True
            if s[2][0] == "agg" and s[2][1].get("k") == "adt" and any(n in rate_names for n in s[2][1].get("fields", [])):
                writes = True
        if writes:
            found = True
            if not any("is_power_of_two" in c.name for c in f.calls):
                return False
    return found


# ------------------------------------------------------------------------------------------
LEN_NAME = re.compile(r"^(len|bit_len|num_bits|n_bits|length)$")


def _tail_functions(P):
    """Functions that compute the tail-bit count `len % 64` (or `len & 63`) of a bit length."""
    out = []
    for f in sorted(P.fns.values(), key=lambda f: f.id):
        if f.crate != "lib":
            continue
        for bi, b in enumerate(f.blocks):
            hit = False
            for s in b["s"]:
                if s[0] == "a" and s[2][0] == "bin" and ((s[2][1] == "Rem" and s[2][3][0] == "k" and s[2][3][1].get("v") == 64) or (s[2][1] == "BitAnd" and s[2][3][0] == "k" and s[2][3][1].get("v") == 63)):
                    pl = op_place(s[2][2])
                    if pl is None:
                        continue
                    sl = backward_slice(f, pl[0], max_nodes=10, through_calls=False)
                    nm = set(sl.names) | set(sl.fields) | {e[2] for e in pl[1] if isinstance(e, list) and e[0] == "f"}
                    if any(LEN_NAME.match(x) for x in nm):
                        hit = True
            if hit:
                out.append(f)
                break
    return out


def _provenance(P, f, local, depth=0):
    """'LEN' if the value is derived from the bit length by /64 (div, div_ceil, >>6);
    'CONTAINER' if derived from the container's length (slice/Vec len, last/last_mut);
    for parameters, the union over the callers' arguments."""
    sl = backward_slice(f, local, max_nodes=40)
    kinds = set()
    names = set(sl.names) | set(sl.fields)
    callees = [c or "" for _, c in sl.calls]
    lenish = any(LEN_NAME.match(x) for x in names)
    if lenish and ("Div" in sl.binops or "Shr" in sl.binops or any(c.endswith("::div_ceil") for c in callees)):
        kinds.add("LEN")
    if any(c.endswith("<impl [T]>::len") or c.endswith("Vec::<T, A>::len") or c.endswith("::last") or c.endswith("::last_mut") for c in callees) or "PtrMetadata" in str(sl.casts):
        kinds.add("CONTAINER")
    # PtrMetadata is a unary op, look for it in defs
    defs = local_defs(f)
    for l in sl.locals:
        for bi, kind, p in defs.get(l, []):
            if kind == "rv" and p[0] == "un" and p[1] == "PtrMetadata":
                kinds.add("CONTAINER")
    if depth < 2:
        for p in sl.params:
            if LEN_NAME.match(f.names.get(p, "")):
                continue
            # look at the callers' argument for this parameter
            for caller_id in P.rev_callgraph().get(f.id, ()):
                g = P.fns[caller_id]
                for c in g.calls:
                    if f.id in P._resolve_id(c) and p - 1 < len(c.args):
                        apl = op_place(c.args[p - 1])
                        if apl is not None:
                            kinds |= _provenance(P, g, apl[0], depth + 1)
    return kinds


def rule_tailmask(progs, tier, name="TAILMASK", floor=4, scope=None):
    """Wherever a function that knows the tail-bit count `len % 64` selects "the partial word",
    the word index must be derived from `len` (len/64, len.div_ceil(64)-1), not from the
    container's length (last_mut(), words.len()-1): with surplus words the two differ and
    stray bits / whole stray words leak into counts (BitVec::with_config documents this bug)."""
    out = []
    for cfg, P in progs.items():
        res = RuleResult(name, cfg)
        out.append(res)
        for f in _tail_functions(P):
            if scope and not re.search(scope, f.id):
                continue
            defs = local_defs(f)
            sels = []  # (description, line, provenance)
            # (1) `x - 1` values used as a word index / compared with a word index
            for bi, b in enumerate(f.blocks):
                for s in b["s"]:
                    if s[0] == "a" and s[2][0] == "bin" and s[2][1] == "Sub" and s[2][3][0] == "k" and s[2][3][1].get("v") == 1:
                        pl = op_place(s[2][2])
                        if pl is None:
                            continue
                        prov = _provenance(P, f, pl[0])
                        if prov:
                            sels.append(("`%s - 1`" % f.local_name(pl[0]), s[3], prov))
            # (2) last()/last_mut() on the word storage
            for c in f.calls:
                if c.name.endswith("::last_mut") or c.name.endswith("::last"):
                    sels.append(("`.%s()`" % c.name.rsplit("::", 1)[-1], c.line, {"CONTAINER"}))
            if not sels:
                res.bad("%s:%s" % (name, f.id), "function %s computes len %% 64 but no partial-word selection was recognised (idiom not recognised: fail closed)" % f.id, f.loc())
                continue
            bad = [s for s in sels if "CONTAINER" in s[2] and "LEN" not in s[2]]
            if bad:
                d, line, prov = bad[0]
                res.bad("%s:%s" % (name, f.id), "%s selects the partial word by %s, which is derived from the container's length rather than from `len`: with surplus words (words.len() > ceil(len/64)) the mask / valid-bit count is applied to the wrong word and whole stray words are counted" % (f.id, d), f.loc(line))
            else:
                res.ok({"fn": f.id, "selections": [(d, sorted(p)) for d, _, p in sels]})
        res.require_floor(floor, "functions computing len % 64")
    return out
