"""Structural rules over data-structure code: SAMPLEIDX (sampled-select index derivation),
TAILMASK, CTOR, LAYOUT, WIDTH."""
import re

from .core import op_place
from .dataflow import backward_slice, local_defs
from .harness import RuleResult

RATE_RE = re.compile(r"rate", re.I)
SAMPLES_RE = re.compile(r"samples", re.I)


def _is_pow2(v):
    return isinstance(v, int) and v > 0 and (v & (v - 1)) == 0


def rule_sampleidx(progs, tier, scope=r"", name="SAMPLEIDX", floor=5):
    """Writer/reader agreement for sampled select: a builder records every `rate`-th one, so a
    reader that looks up `samples[i]` must derive i as `k / rate` with that same rate.  A reader
    that derives i by shifting / masking (`k >> rate.trailing_zeros()`, `k & (rate-1)`) is only
    equivalent when the rate is a power of two: accepted iff the rate is a constant power of two,
    or every function that stores the rate field checks `is_power_of_two`."""
    out = []
    for cfg, P in progs.items():
        res = RuleResult(name, cfg)
        out.append(res)
        for f in sorted(P.fns.values(), key=lambda f: f.id):
            if f.crate != "lib" or (scope and not re.search(scope, f.id)):
                continue
            # index-like uses of a samples field
            for c in f.calls:
                nm = c.name
                if not (nm.endswith("::get") or nm.endswith("::index") or nm.endswith("::get_unchecked") or "Index" in nm):
                    continue
                if len(c.args) < 2:
                    continue
                rpl = op_place(c.args[0])
                if rpl is None:
                    continue
                rsl = backward_slice(f, rpl[0], max_nodes=20, through_calls=True)
                rfields = set(rsl.fields) | {e[2] for e in rpl[1] if isinstance(e, list) and e[0] == "f"}
                if not any(SAMPLES_RE.search(x) for x in rfields):
                    continue
                ipl = op_place(c.args[1])
                if ipl is None:
                    continue
                isl = backward_slice(f, ipl[0], max_nodes=60)
                rate_names = [x for x in (set(isl.names) | set(isl.fields)) if RATE_RE.search(x)]
                rate_consts = [k for k in isl.consts if k.get("item") and RATE_RE.search(k["item"])]
                if not rate_names and not rate_consts:
                    continue
                inst = {"reader": f.id, "samples": sorted(x for x in rfields if SAMPLES_RE.search(x)), "rate": sorted(rate_names) or [k["item"] for k in rate_consts]}
                key = "%s:%s" % (name, f.id)
                strength_reduced = any("trailing_zeros" in (cn or "") or "ilog2" in (cn or "") for _, cn in isl.calls) and ("Shr" in isl.binops)
                if "Div" in isl.binops and not strength_reduced:
                    inst["derivation"] = "k / rate"
                    res.ok(inst)
                    continue
                # strength-reduced derivation: needs a power-of-two rate
                if rate_consts and all(_is_pow2(k.get("v")) for k in rate_consts) and not rate_names:
                    inst["derivation"] = "shift/mask by a constant power-of-two rate"
                    res.ok(inst)
                    continue
                if _rate_checked_pow2(P, rate_names):
                    inst["derivation"] = "shift/mask; constructors check is_power_of_two"
                    res.ok(inst)
                    continue
                res.bad(key, "reader %s derives the sample index from `%s` by shift/mask instead of division, but nothing establishes that the rate is a power of two (builders sample every rate-th one for any rate)" % (f.id, ",".join(sorted(rate_names))), f.loc(c.line))
        res.require_floor(floor, "sampled-select reader sites")
    return out


def _rate_checked_pow2(P, rate_names):
    """True iff every function that writes a struct field with one of these names calls
    is_power_of_two (on any value) before the write."""
    found = False
    for f in P.fns.values():
        if f.crate != "lib":
            continue
        writes = False
        for _, _, s in f.stmts():
            if s[0] != "a":
                continue
            for e in s[1][1]:
                if isinstance(e, list) and e[0] == "f" and e[2] in rate_names:
                    writes = True
            if s[2][0] == "agg" and s[2][1].get("k") == "adt" and any(n in rate_names for n in s[2][1].get("fields", [])):
                writes = True
        if writes:
            found = True
            if not any("is_power_of_two" in c.name for c in f.calls):
                return False
    return found


# ------------------------------------------------------------------------------------------
LEN_NAME = re.compile(r"^(len|bit_len|num_bits|n_bits|length)$")


def _tail_functions(P):
    """Functions that compute the tail-bit count `len % 64` (or `len & 63`) of a bit length."""
    out = []
    for f in sorted(P.fns.values(), key=lambda f: f.id):
        if f.crate != "lib":
            continue
        for bi, b in enumerate(f.blocks):
            hit = False
            for s in b["s"]:
                if s[0] == "a" and s[2][0] == "bin" and ((s[2][1] == "Rem" and s[2][3][0] == "k" and s[2][3][1].get("v") == 64) or (s[2][1] == "BitAnd" and s[2][3][0] == "k" and s[2][3][1].get("v") == 63)):
                    pl = op_place(s[2][2])
                    if pl is None:
                        continue
                    sl = backward_slice(f, pl[0], max_nodes=10, through_calls=False)
                    nm = set(sl.names) | set(sl.fields) | {e[2] for e in pl[1] if isinstance(e, list) and e[0] == "f"}
                    if any(LEN_NAME.match(x) for x in nm):
                        hit = True
            if hit:
                out.append(f)
                break
    return out


def _provenance(P, f, local, depth=0):
    """'LEN' if the value is derived from the bit length by /64 (div, div_ceil, >>6);
    'CONTAINER' if derived from the container's length (slice/Vec len, last/last_mut);
    for parameters, the union over the callers' arguments."""
    sl = backward_slice(f, local, max_nodes=40)
    kinds = set()
    names = set(sl.names) | set(sl.fields)
    callees = [c or "" for _, c in sl.calls]
    lenish = any(LEN_NAME.match(x) for x in names)
    if lenish and ("Div" in sl.binops or "Shr" in sl.binops or any(c.endswith("::div_ceil") for c in callees)):
        kinds.add("LEN")
    if any(c.endswith("<impl [T]>::len") or c.endswith("Vec::<T, A>::len") or c.endswith("::last") or c.endswith("::last_mut") for c in callees) or "PtrMetadata" in str(sl.casts):
        kinds.add("CONTAINER")
    # PtrMetadata is a unary op, look for it in defs
    defs = local_defs(f)
    for l in sl.locals:
        for bi, kind, p in defs.get(l, []):
            if kind == "rv" and p[0] == "un" and p[1] == "PtrMetadata":
                kinds.add("CONTAINER")
    if depth < 2:
        for p in sl.params:
            if LEN_NAME.match(f.names.get(p, "")):
                continue
            # look at the callers' argument for this parameter
            for caller_id in P.rev_callgraph().get(f.id, ()):
                g = P.fns[caller_id]
                for c in g.calls:
                    if f.id in P._resolve_id(c) and p - 1 < len(c.args):
                        apl = op_place(c.args[p - 1])
                        if apl is not None:
                            kinds |= _provenance(P, g, apl[0], depth + 1)
    return kinds


def rule_tailmask(progs, tier, name="TAILMASK", floor=4, scope=None):
    """Wherever a function that knows the tail-bit count `len % 64` selects "the partial word",
    the word index must be derived from `len` (len/64, len.div_ceil(64)-1), not from the
    container's length (last_mut(), words.len()-1): with surplus words the two differ and
    stray bits / whole stray words leak into counts (BitVec::with_config documents this bug)."""
    out = []
    for cfg, P in progs.items():
        res = RuleResult(name, cfg)
        out.append(res)
        for f in _tail_functions(P):
            if scope and not re.search(scope, f.id):
                continue
            defs = local_defs(f)
            sels = []  # (description, line, provenance)
            # (1) `x - 1` values used as a word index / compared with a word index
            for bi, b in enumerate(f.blocks):
                for s in b["s"]:
                    if s[0] == "a" and s[2][0] == "bin" and s[2][1] == "Sub" and s[2][3][0] == "k" and s[2][3][1].get("v") == 1:
                        pl = op_place(s[2][2])
                        if pl is None:
                            continue
                        prov = _provenance(P, f, pl[0])
                        if prov:
                            sels.append(("`%s - 1`" % f.local_name(pl[0]), s[3], prov))
            # (2) last()/last_mut() on the word storage
            for c in f.calls:
                if c.name.endswith("::last_mut") or c.name.endswith("::last"):
                    sels.append(("`.%s()`" % c.name.rsplit("::", 1)[-1], c.line, {"CONTAINER"}))
            if not sels:
                res.bad("%s:%s" % (name, f.id), "function %s computes len %% 64 but no partial-word selection was recognised (idiom not recognised: fail closed)" % f.id, f.loc())
                continue
            bad = [s for s in sels if "CONTAINER" in s[2] and "LEN" not in s[2]]
            if bad:
                d, line, prov = bad[0]
                res.bad("%s:%s" % (name, f.id), "%s selects the partial word by %s, which is derived from the container's length rather than from `len`: with surplus words (words.len() > ceil(len/64)) the mask / valid-bit count is applied to the wrong word and whole stray words are counted" % (f.id, d), f.loc(line))
            else:
                res.ok({"fn": f.id, "selections": [(d, sorted(p)) for d, _, p in sels]})
        res.require_floor(floor, "functions computing len % 64")
    return out


# ------------------------------------------------------------------------------------------
def _trace_field_source(f, op, depth=0):
    """Trace an aggregate operand back to ('call', callee, tuple_index) | ('param', name) | ('other',)."""
    defs = local_defs(f)
    cur = op
    idx = None
    for _ in range(12):
        if cur[0] == "k":
            return ("const", cur[1].get("v"))
        pl = op_place(cur)
        if pl is None:
            return ("other",)
        l, proj = pl
        fields = [e for e in proj if isinstance(e, list) and e[0] == "f"]
        if fields and idx is None:
            idx = fields[-1][1]
        if 1 <= l <= f.nargs and l not in defs:
            return ("param", f.names.get(l, "_%d" % l), idx)
        ds = [d for d in defs.get(l, []) if d[1] in ("rv", "call")]
        if len(ds) != 1:
            if 1 <= l <= f.nargs:
                return ("param", f.names.get(l, "_%d" % l), idx)
            return ("other",)
        bi, kind, p = ds[0]
        if kind == "call":
            fop = p[1]
            nm = fop[1].get("r", fop[1].get("fn")) if fop[0] == "k" else "?"
            return ("call", nm, idx)
        if p[0] == "use":
            cur = p[1]
            continue
        if p[0] == "agg" and p[1].get("k") == "tuple" and idx is not None and idx < len(p[2]):
            cur = p[2][idx]
            idx = None
            continue
        return ("other",)
    return ("other",)


def rule_ctor_siblings(progs, tier, adt="trees::bp::BalancedParens", producer="trees::bp::build_bp_index", name="CTOR", floor=5):
    """Constructor funnel / sibling agreement: every struct literal of `adt` must take the fields
    that come from `producer`'s result tuple from the same tuple positions as its siblings, and
    (ground truth) from the position whose producing local in `producer` carries the field's name."""
    out = []
    for cfg, P in progs.items():
        res = RuleResult(name, cfg)
        out.append(res)
        prod = P.fns.get(producer)
        truth = {}
        if prod is not None:
            # the return aggregate of the producer: tuple element i <- local named n
            for bi, b in enumerate(prod.blocks):
                for s in b["s"]:
                    if s[0] == "a" and s[1] == [0, []] and s[2][0] == "agg" and s[2][1].get("k") == "tuple":
                        for i, o in enumerate(s[2][2]):
                            pl = op_place(o)
                            if pl is not None and not pl[1]:
                                # follow one copy to a named local
                                nm = prod.names.get(pl[0])
                                if nm is None:
                                    ds = local_defs(prod).get(pl[0], [])
                                    if len(ds) == 1 and ds[0][1] == "rv" and ds[0][2][0] == "use":
                                        q = op_place(ds[0][2][1])
                                        if q is not None:
                                            nm = prod.names.get(q[0])
                                if nm:
                                    truth.setdefault(i, set()).add(nm)
        sites = []
        for f in sorted(P.fns.values(), key=lambda f: f.id):
            if f.crate != "lib":
                continue
            for bi, b in enumerate(f.blocks):
                for s in b["s"]:
                    if s[0] == "a" and s[2][0] == "agg" and s[2][1].get("k") == "adt" and P.norm(s[2][1]["path"], False) == adt and not s[4]:
                        fields = s[2][1]["fields"]
                        m = {}
                        for fname, o in zip(fields, s[2][2]):
                            src = _trace_field_source(f, o)
                            if src[0] == "call" and src[1] and P.norm(src[1], False) == producer:
                                m[fname] = src[2]
                        if m:
                            sites.append((f, s[3], m))
        if len(sites) < floor:
            res.bad("%s:%s:floor" % (name, adt), "only %d constructor sites of %s take fields from %s (floor %d; anchor missing or idiom not recognised)" % (len(sites), adt, producer, floor))
            continue
        # reference: majority mapping per field
        from collections import Counter

        ref = {}
        for fname in set().union(*[set(m) for _, _, m in sites]):
            c = Counter(m.get(fname) for _, _, m in sites if fname in m)
            ref[fname] = c.most_common(1)[0][0]
        for f, line, m in sites:
            diffs = {k: (v, ref[k]) for k, v in m.items() if v != ref[k]}
            named = {k: v for k, v in m.items() if v in truth and k not in truth[v] and any(k in t for t in truth.values())}
            if diffs or named:
                k = sorted(diffs or named)[0]
                res.bad(
                    "%s:%s" % (name, f.id),
                    "constructor %s fills field `%s` from element %s of %s's result, its siblings take element %s%s: the struct is assembled from mismatched index parts" % (f.id, k, m[k], producer, ref[k], (" (the producer binds that element from local %s)" % sorted(truth.get(m[k], []))) if truth.get(m[k]) else ""),
                    f.loc(line),
                )
            else:
                res.ok({"ctor": f.id, "fields_from_producer": len(m), "mapping": "agrees with siblings" + (" and with producer's local names" if truth else "")})
    return out


# ------------------------------------------------------------------------------------------
def _field_writes(f, field):
    """(bb, line, operand) for every store to a struct field named `field` (direct field
    assignment through any place, or as a member of a struct literal)."""
    out = []
    for bi, b in enumerate(f.blocks):
        for s in b["s"]:
            if s[0] != "a":
                continue
            proj = s[1][1]
            if proj and isinstance(proj[-1], list) and proj[-1][0] == "f" and proj[-1][2] == field:
                if s[2][0] == "use":
                    out.append((bi, s[3], s[2][1], "assign"))
                else:
                    out.append((bi, s[3], ("rv", s[2]), "assign"))
            if s[2][0] == "agg" and s[2][1].get("k") == "adt" and field in s[2][1].get("fields", []):
                i = s[2][1]["fields"].index(field)
                out.append((bi, s[3], s[2][2][i], "literal"))
    return out


def _slice_of_operand(f, op):
    if op is None or op[0] == "k":
        return None
    if op[0] == "rv":
        from .dataflow import Slice as DSlice, operands_of_rvalue

        tot = DSlice()
        rv = op[1]
        if rv[0] == "bin":
            tot.binops.add(rv[1])
        for o in operands_of_rvalue(rv):
            s1 = _slice_of_operand(f, o)
            if s1 is not None:
                tot.locals |= s1.locals
                tot.fields |= s1.fields
                tot.names |= s1.names
                tot.consts += s1.consts
                tot.calls += s1.calls
                tot.casts |= s1.casts
                tot.binops |= s1.binops
                tot.params |= s1.params
        return tot
    pl = op_place(op)
    if pl is None:
        return None
    from .dataflow import _fields_of

    sl = backward_slice(f, pl[0], max_nodes=80, fields=_fields_of(pl[1]))
    return sl


def _ops_defining(f, l):
    out = []
    for bi, kind, p in local_defs(f).get(l, []):
        out.append(p[0] if kind in ("rv", "partial") else "call")
    return out


def rule_cursor_coupling(progs, tier, impl_re=r"^bits::elias_fano::(EliasFanoCursor|EliasFano::cursor)", pos_field="high_pos", bits_field="remaining_bits", name="COUPLED(EliasFanoCursor)", floor=7):
    """Representation invariant of a bit-scanning cursor: the lowest set bit of `remaining_bits`
    is the current element, i.e. it sits at `high_pos % 64`.  Structurally: every value stored
    to `high_pos` must be computed from `trailing_zeros` of the very value stored to (or read
    from) `remaining_bits`, or `remaining_bits` must be masked with a mask computed from that
    `high_pos` (`word & !((1 << (high_pos % 64)) - 1)`).  A position computed by an independent
    route (e.g. select-in-word on the raw word) leaves the pair uncoupled: the next relative
    move starts from the wrong bit."""
    out = []
    for cfg, P in progs.items():
        res = RuleResult(name, cfg)
        out.append(res)
        for f in sorted(P.fns.values(), key=lambda f: f.id):
            if f.crate != "lib" or not re.search(impl_re, f.id):
                continue
            hw = _field_writes(f, pos_field)
            rw = _field_writes(f, bits_field)
            if not hw:
                continue
            defs = local_defs(f)
            for bi, line, hop, how in hw:
                key = "%s:%s" % (name, f.id)
                if hop is not None and hop[0] == "k" and isinstance(hop[1], dict):
                    res.ok({"fn": f.id, "site": how, "high_pos": "constant %s (exhausted / empty cursor)" % hop[1].get("v")})
                    continue
                hs = _slice_of_operand(f, hop)
                if hs is None:
                    res.bad(key, "%s stores a %s to `%s` that the rule cannot trace (fail closed)" % (f.id, how, pos_field), f.loc(line))
                    continue
                ok_how = None
                # (a) high_pos derives from trailing_zeros(remaining_bits value)
                tz_calls = [(cb, cn) for cb, cn in hs.calls if cn and cn.endswith("::trailing_zeros")]
                for cb, cn in tz_calls:
                    call = next((c for c in f.calls if c.bb == cb), None)
                    if call is None or not call.args:
                        continue
                    asl = _slice_of_operand(f, call.args[0])
                    if asl is None:
                        continue
                    if bits_field in asl.fields:
                        ok_how = "trailing_zeros(self.%s)" % bits_field
                        break
                    for _, _, rop, _ in rw:
                        rpl = op_place(rop) if (rop is not None and rop[0] in ("c", "m")) else None
                        if rpl is not None and (rpl[0] in asl.locals or (_slice_of_operand(f, rop).locals & asl.locals and not (set(_slice_of_operand(f, rop).binops) - set(asl.binops)))):
                            ok_how = "trailing_zeros of the value stored to %s" % bits_field
                            break
                    if ok_how:
                        break
                # (b) remaining_bits masked by a mask computed from this high_pos
                if ok_how is None:
                    for _, _, rop, _ in rw:
                        rs = _slice_of_operand(f, rop)
                        if rs is None:
                            continue
                        # the mask's shift amount must come from this high_pos (same def chain)
                        roots = {l for l in hs.locals if not (set(_ops_defining(f, l)) - {"use"})}
                        if (hs.locals & rs.locals) and "Shl" in rs.binops and "Rem" in rs.binops and (not hs.binops or hs.binops <= rs.binops):
                            ok_how = "%s = word & !((1 << (%s %% 64)) - 1)" % (bits_field, pos_field)
                            break
                if ok_how:
                    res.ok({"fn": f.id, "site": how, "coupling": ok_how})
                else:
                    res.bad(key, "%s stores to `%s` a position that is neither trailing_zeros of the value kept in `%s` nor the source of that value's mask: the cursor invariant (lowest set bit of %s is the current element) is not re-established on this path, so the next relative move starts from the wrong bit" % (f.id, pos_field, bits_field, bits_field), f.loc(line))
        res.require_floor(floor, "stores to %s" % pos_field)
    return out


# ---------------------------------------------------------------------------------------------
# LAYOUT(rank directory): the writer's packing of an L1/L2 entry and the reader's unpacking agree
def rule_rank_layout(progs, tier, name="LAYOUT(rank directory)"):
    """`RankDirectory::build` packs a cumulative count into the low bits of a u128 and 7 block
    offsets above it (`offset << (B + i*S)`); `rank_at_word` unpacks them (`entry & M1`,
    `(entry >> (B + i*S)) & M2`).  The reader must keep every bit the writer stores: M1 = 2^B - 1
    with B the bit width of the writer's L1 count type, M2 = 2^S - 1, and both sides use the same
    base B and stride S.  No input smaller than 2^28 one-bits separates a narrower M1 from the
    right one, so this clause is decided on the code's shape rather than by evaluation."""
    WIDTH = {"u8": 8, "u16": 16, "u32": 32, "u64": 64, "usize": 64}
    out = []
    for cfg, P in progs.items():
        res = RuleResult(name, cfg)
        out.append(res)
        rd = P.fns.get("bits::rank::RankDirectory::rank_at_word")
        wr = P.fns.get("bits::rank::RankDirectory::build")
        if rd is None or wr is None:
            res.bad("%s:anchor" % name, "RankDirectory::build / rank_at_word not found (fail closed)")
            continue

        def shift_consts(f, opname):
            """For each `x <op> amount`: follow `amount` through copies / casts to `B + (i * S)` and return (B, S)."""
            defs = local_defs(f)
            found = []

            def one_def(l):
                ds = [d for d in defs.get(l, []) if d[1] == "rv"]
                return ds[0][2] if len(ds) == 1 else None

            def chase(l, depth=0):
                rv = one_def(l)
                if rv is None or depth > 6:
                    return None
                if rv[0] in ("use", "cast"):
                    pl = op_place(rv[1] if rv[0] == "use" else rv[2])
                    return chase(pl[0], depth + 1) if pl is not None and not pl[1] else None
                return rv

            for b in f.blocks:
                for s in b["s"]:
                    if s[0] == "a" and s[2][0] == "bin" and s[2][1] == opname:
                        amt = op_place(s[2][3])
                        if amt is None:
                            continue
                        rv = chase(amt[0])
                        if rv is None or rv[0] != "bin" or rv[1] != "Add":
                            found.append((s[3], None))
                            continue
                        ks = [o[1].get("v") for o in (rv[2], rv[3]) if o[0] == "k"]
                        others = [op_place(o) for o in (rv[2], rv[3]) if o[0] != "k"]
                        if len(ks) != 1 or len(others) != 1 or others[0] is None:
                            found.append((s[3], None))
                            continue
                        rv2 = chase(others[0][0])
                        if rv2 is None or rv2[0] != "bin" or rv2[1] != "Mul":
                            found.append((s[3], None))
                            continue
                        ks2 = [o[1].get("v") for o in (rv2[2], rv2[3]) if o[0] == "k"]
                        found.append((s[3], (ks[0], ks2[0]) if len(ks2) == 1 else None))
            return found

        # reader: masks applied to the u128 entry, shift base and stride
        masks = []
        for b in rd.blocks:
            for s in b["s"]:
                if s[0] == "a" and s[2][0] == "bin" and s[2][1] == "BitAnd":
                    for o in (s[2][2], s[2][3]):
                        if o[0] == "k" and o[1].get("ty") == "u128" and isinstance(o[1].get("v"), int):
                            masks.append((s[3], o[1]["v"]))
                if s[0] == "a" and s[2][0] == "cast" and s[2][1] == "IntToInt" and s[2][3] in WIDTH:
                    src = op_place(s[2][2])
                    if src is not None and rd.locals[src[0]] == "u128" and not src[1]:
                        # `entry as u32`: a truncating cast is a mask of that width (only when taken from the raw entry)
                        sl = backward_slice(rd, src[0], max_nodes=12, through_calls=False)
                        if "Shr" not in sl.binops and "BitAnd" not in sl.binops:
                            masks.append((s[3], (1 << WIDTH[s[2][3]]) - 1))
        rshift = shift_consts(rd, "Shr")
        wshift = shift_consts(wr, "Shl")
        # writer: width of the L1 count (a cast to u128 of a narrower local that is not shifted)
        shifted_srcs = set()
        for b in wr.blocks:
            for s in b["s"]:
                if s[0] == "a" and s[2][0] == "bin" and s[2][1] == "Shl":
                    pl = op_place(s[2][2])
                    if pl is not None:
                        shifted_srcs.add(pl[0])
        l1_widths = []
        for b in wr.blocks:
            for s in b["s"]:
                if s[0] == "a" and s[2][0] == "cast" and s[2][1] == "IntToInt" and s[2][3] == "u128" and s[1][0] not in shifted_srcs:
                    src = op_place(s[2][2])
                    if src is not None and wr.locals[src[0]] in WIDTH:
                        l1_widths.append((s[3], wr.locals[src[0]], WIDTH[wr.locals[src[0]]]))
        if len(masks) != 2 or len(rshift) != 1 or len(wshift) != 1 or len(l1_widths) != 1:
            res.bad("%s:shape" % name, "pack / unpack idiom not recognised: reader masks %r, reader shifts %r, writer shifts %r, writer L1 casts %r (fail closed)" % (masks, rshift, wshift, l1_widths), rd.loc())
            continue
        m1 = max(m for _, m in masks)
        m2 = min(m for _, m in masks)
        if rshift[0][1] is None or wshift[0][1] is None:
            res.bad("%s:shape" % name, "shift amount is not `base + i * stride` with two constants: reader %r, writer %r (fail closed)" % (rshift, wshift), rd.loc())
            continue
        (B_r, S_r), (B_w, S_w) = rshift[0][1], wshift[0][1]
        W = l1_widths[0][2]
        ok = True
        if (B_r, S_r) != (B_w, S_w):
            res.bad("%s:shift" % name, "rank_at_word reads the block offsets at `%d + i*%d`, build stores them at `%d + i*%d`" % (B_r, S_r, B_w, S_w), rd.loc(rshift[0][0]))
            ok = False
        if m1 != (1 << B_w) - 1 or W != B_w:
            res.bad("%s:l1-mask" % name, "build stores the cumulative count as %s (%d bits) below bit %d, rank_at_word keeps `entry & %#x` (%d bits): counts of 2^%d and more lose their high bits" % (l1_widths[0][1], W, B_w, m1, bin(m1).count("1"), bin(m1).count("1")), rd.loc(masks[0][0]))
            ok = False
        if m2 != (1 << S_w) - 1:
            res.bad("%s:l2-mask" % name, "build stores block offsets %d bits apart, rank_at_word masks them with %#x" % (S_w, m2), rd.loc(masks[-1][0]))
            ok = False
        if ok:
            res.ok({"l1_bits": W, "l2_base": B_w, "l2_stride": S_w, "reader_masks": [hex(m1), hex(m2)]})
    return out
