"""EFTAB — the Elias-Fano sequence evaluated from MIR: `build`, then len / universe / get /
predecessor / iteration, and cursors driven through every operation sequence up to a bounded
length (advance_one, advance_by(k) for k around the 1 and 64 thresholds, seek, cursor_from),
against the plain-sequence model.  Sequence family: empty, singletons, duplicates, dense runs,
sparse values leaving all-zero high-bits words, values up to u32::MAX, lengths crossing the
64-bit high-bits word and the select sample rate.  Bounded-exhaustive, not all inputs."""
import itertools

from .harness import RuleResult
from .minimir import Adt, Interp, Panic, Slice, Unsupported
from .stdmodel import tmp_ref

E = "bits::elias_fano::EliasFano::"
C = "bits::elias_fano::EliasFanoCursor::<'_>::"


def opt(r):
    if isinstance(r, Adt) and r.path.endswith("Option"):
        v = r.fields[0] if r.vi == 1 else None
        return tuple(v) if isinstance(v, list) else v
    return r


def sequences(tier):
    seqs = [
        [], [0], [7], [2**32 - 1], [0, 2**32 - 1], [0, 0, 0], [5, 5, 5, 5, 9],
        list(range(70)), [i * 5 for i in range(200)], [i * 1000 for i in range(130)],
        [0, 0, 1, 1, 1, 5, 5, 100, 100, 100, 101, 4000, 4000, 1 << 20, (1 << 20) + 1],
        [i // 3 for i in range(300)], [3] * 130, [i * i for i in range(90)],
        [1 << 31, (1 << 31) + 1, 2**32 - 2, 2**32 - 1],
        sorted({(i * 2654435761) % 50000 for i in range(300)}),
    ]
    if tier == "thorough":
        seqs += [[i * 7 for i in range(600)], [i // 2 for i in range(1000)], sorted({(i * 40503) % (1 << 24) for i in range(700)})]
    return seqs


def rule_ef(progs, tier, name="EFTAB"):
    out = []
    for cfg, P in progs.items():
        res = RuleResult(name, cfg)
        out.append(res)
        I = Interp(P, max_steps=20000000)
        flip = [0]
        problems = {}
        n_q = 0
        n_hist = 0
        try:
            for vals in sequences(tier):
                flip[0] ^= 1
                I.overrides["util::simd::x86::has_fast_bmi2"] = lambda a, f=flip[0]: f
                I.overrides["bits::scan::has_avx2"] = lambda a, f=flip[0]: f
                I.statics.clear()
                ef = I.call(E + "build", [Slice(list(vals), 0, len(vals), 4)])
                r = tmp_ref(ef)
                n = len(vals)
                desc = "sequence of %d values %s" % (n, vals[:6] + (["..."] if n > 6 else []))
                got = I.call(E + "len", [r])
                n_q += 1
                if got != n:
                    problems.setdefault("%s:len" % name, "len() = %r for a %s" % (got, desc))
                if n:
                    got = I.call(E + "universe", [r])
                    n_q += 1
                    if got != vals[-1] + 1:
                        problems.setdefault("%s:universe" % name, "universe() = %r, max+1 = %d for a %s" % (got, vals[-1] + 1, desc))
                for i in list(range(0, n + 2)) if n <= 320 or tier == "thorough" else sorted(set(list(range(0, 70)) + [n // 2, n - 2, n - 1, n, n + 1])):
                    got = opt(I.call(E + "get", [r, i]))
                    exp = vals[i] if i < n else None
                    n_q += 1
                    if got != exp:
                        problems.setdefault("%s:get" % name, "get(%d) = %r, element is %r, for a %s" % (i, got, exp, desc))
                probes = set()
                for v in vals[:: max(1, n // 40)] + vals[-3:] + vals[:3]:
                    probes |= {max(v - 1, 0), v, min(v + 1, 2**32 - 1)}
                probes |= {0, 2**32 - 1}
                for v in sorted(probes):
                    got = opt(I.call(E + "predecessor", [r, v]))
                    idx = None
                    for i, x in enumerate(vals):
                        if x <= v:
                            idx = i
                        else:
                            break
                    exp = (idx, vals[idx]) if idx is not None else None
                    n_q += 1
                    if got != exp:
                        problems.setdefault("%s:predecessor" % name, "predecessor(%d) = %r, the last index holding the largest element <= v is %r, for a %s" % (v, got, exp, desc))
                # iteration through the cursor from the start
                c = I.call(E + "cursor", [r])
                cr = tmp_ref(c)
                seen = []
                cur = opt(I.call(C + "current", [cr]))
                while cur is not None and len(seen) <= n + 2:
                    seen.append(cur)
                    cur = opt(I.call(C + "advance_one", [cr]))
                n_q += len(seen) + 1
                if seen != list(vals):
                    k = next((i for i in range(min(len(seen), n)) if seen[i] != vals[i]), min(len(seen), n))
                    problems.setdefault("%s:iterate" % name, "iterating with advance_one yields %d values, first difference at index %d, for a %s" % (len(seen), k, desc))
                # cursor histories
                if n == 0:
                    continue
                ks = [0, 1, 2, 3, 5, 63, 64, 65, 70]
                ops = [("advance_one",)] + [("advance_by", k) for k in ks] + [("seek", j) for j in sorted({0, n // 2, n - 1, n})]
                starts = sorted({0, 1, n // 3, n // 2, max(n - 2, 0), n - 1, 27 if n > 30 else 0, 62 if n > 70 else 0}) if tier == "thorough" else sorted({0, n // 2, n - 1, 27 if n > 30 else 0})
                depth = 3 if tier == "thorough" and n <= 200 else 2
                seqs_ops = list(itertools.product(ops, repeat=depth)) if n <= 130 or tier == "thorough" else list(itertools.product(ops, repeat=2))[::3]
                for s0 in starts:
                    for hist in seqs_ops:
                        c = I.call(E + "cursor_from", [r, s0])
                        cr = tmp_ref(c)
                        idx = s0 if s0 < n else n
                        okh = True
                        for op in hist:
                            if op[0] == "advance_one":
                                got = opt(I.call(C + "advance_one", [cr]))
                                idx = idx + 1 if idx + 1 < n else n
                                exp = vals[idx] if idx < n else None
                            elif op[0] == "advance_by":
                                k = op[1]
                                got = opt(I.call(C + "advance_by", [cr, k]))
                                if k > 0:
                                    idx = idx + k if idx + k < n else n
                                exp = vals[idx] if idx < n else None
                            else:
                                j = op[1]
                                got = opt(I.call(C + "seek", [cr, j]))
                                idx = j if j < n else n
                                exp = vals[idx] if idx < n else None
                            gi = I.call(C + "index", [cr])
                            gc = opt(I.call(C + "current", [cr]))
                            n_hist += 1
                            if got != exp or (idx < n and (gi != idx or gc != vals[idx])) or (idx >= n and gc is not None):
                                problems.setdefault("%s:cursor:%s" % (name, op[0]), "cursor_from(%d) then %s: %s returns %r (index %r, current %r); the plain sequence gives %r at index %d, for a %s" % (s0, list(hist), op, got, gi, gc, exp, idx, desc))
                                okh = False
                                break
        except Panic as e:
            res.bad("%s:panic" % name, "Elias-Fano code panics on a %s: %s" % (desc, e))
            continue
        except (Unsupported, KeyError) as e:
            res.bad("%s:evaluate" % name, "cannot evaluate Elias-Fano fragment: %s" % e)
            continue
        for k, m in sorted(problems.items()):
            res.bad(k, m)
        res.cells += n_q + n_hist
        res.engines += 1
        res.ok({"sequences": len(sequences(tier)), "queries": n_q, "cursor_history_steps": n_hist})
    return out
