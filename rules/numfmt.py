"""NUMFMT (C10) — the crate's number spelling functions evaluated from MIR:
  * `jq::value::format_number_jq_compat(literal)` (jq mode's re-spelling of a source literal: mantissa
    normalisation, exponent form, leading zeros / `+`) on a family of decimal literals of every
    shape — the result must be a JSON number whose value as a double equals the literal's;
  * `jq::value::jq_bare_float_display`, `JqCompatFormatter`-style `format!("{f}")`, and the yq
    spellings `yaml::light::format_float_yq`, `format_float_yq_yaml`, `format_float_yq_yaml_nested`,
    `format_float_with_fraction` on a family of finite doubles (powers of ten and two, values
    around 2^53 and 2^63, subnormals, extremes, pseudo-random bit patterns) — the text must parse
    back to exactly the same double;
  * i64 display on boundary integers — exact.
The shortest-round-trip digit generation of `f64::to_string` itself is std's (modelled here by
Python's repr, which implements the same "shortest digits that round-trip" contract): what this
decides is the crate's own logic around it, not std's algorithm."""
import re
import struct

from .harness import RuleResult
from .minimir import Adt, Interp, Panic, Slice, Unsupported
from .stdmodel import StrBuf

JSON_NUM = re.compile(r"^-?(0|[1-9][0-9]*)(\.[0-9]+)?([eE][-+]?[0-9]+)?$")


def literals(tier):
    out = ["0", "-0", "1", "-1", "10", "100", "123456789", "9007199254740993", "18446744073709551616", "100000000000000000000",
           "0.0", "-0.0", "1.0", "1.50", "0.1", "0.10", "100.0", "3.141592653589793", "0.30000000000000004", "123.456", "0.000001", "0.0000001", "1.7976931348623157e308",
           "1e0", "1E0", "1e1", "1e+1", "1e-1", "1E+5", "1e5", "4e4", "1e-3", "1e-7", "1.5e3", "1.5E-3", "12.5e-1", "0.5e1", "1e21", "1e22", "1e-5", "1e-6", "2.5e-7",
           "1e308", "1e-308", "5e-324", "4.9e-324", "2.2250738585072014e-308", "1e-320", "1.7976931348623157E+308", "9.9999999999999e-64", "1e15", "1e16", "1e17", "123e-2", "123e2",
           "1.0e0", "1.00e10", "10e-1", "100e-2", "0.001e3", "0e0", "0e10", "-0e0", "0.0e-5", "1e00", "1e01", "1e+01", "1e-01", "1e007", "000", "007", "-007", "1.", "01.5",
           "0.25e2", "0.125e3", "-0.75e1", "0.6022e24", "0.12e-30", ".25e2", "0.0123e5", "0.00120e-3", "0.999e0", "0.10e1", "12.34e-5", "120.0e2", "00.5e1",
           "12345678901234567890.123456789", "0.000000000000000000000000000001", "999999999999999999999999999999", "1e-400", "0.1e-400"]
    if tier == "thorough":
        x = 7
        for _ in range(300):
            x = (x * 1103515245 + 12345) & 0x7FFFFFFF
            m = str((x >> 4) % 100000)
            d = str((x >> 9) % 1000)
            e = ((x >> 3) % 640) - 320
            sign = "-" if x & 1 else ""
            out.append("%s%s.%se%d" % (sign, m, d, e))
            out.append("%s%s.%s" % (sign, m, d))
            out.append("%s%sE%+d" % (sign, m, e // 2))
    return out


def doubles(tier):
    vals = [0.0, -0.0, 1.0, -1.0, 0.1, 0.5, 1.5, 2.0 / 3.0, 1e-7, 1e-6, 1e-5, 1e15, 1e16, 1e17, 1e21, 1e22, 123456.789, 5e-324, 2.2250738585072014e-308, 1.7976931348623157e308,
            2.0**53, 2.0**53 + 2, 2.0**53 - 1, 2.0**63, -(2.0**63), 2.0**64, 9007199254740993.0, 0.30000000000000004, 1e100, 1e-100, 3.0e-310, 100.0, 1e2, 4e4, 255.0, 0.001, 123456789012345680.0]
    for k in range(-30, 31, 3):
        vals += [10.0**k, 2.0**k, -(10.0**k)]
    x = 99
    for _ in range(400 if tier == "thorough" else 60):
        x = (x * 6364136223846793005 + 1442695040888963407) & ((1 << 64) - 1)
        f = struct.unpack("<d", struct.pack("<Q", x))[0]
        if f == f and f not in (float("inf"), float("-inf")):
            vals.append(f)
    return vals


def text(r):
    if isinstance(r, StrBuf):
        return bytes(r.b).decode("utf-8", "replace")
    raise Unsupported("formatter returned %r" % (r,))


def rule_numbers(progs, tier, name="NUMFMT"):
    out = []
    for cfg, P in progs.items():
        res = RuleResult(name, cfg)
        out.append(res)
        I = Interp(P, max_steps=5000000, max_depth=200)
        problems = {}
        n = 0

        def bad(what, msg):
            problems.setdefault("%s:%s" % (name, what), msg)

        try:
            for lit in literals(tier):
                try:
                    want = float(lit)
                except ValueError:
                    continue
                if want in (float("inf"), float("-inf")):
                    continue  # the property speaks of literals whose value is a finite double
                b = lit.encode()
                r = text(I.call("jq::value::format_number_jq_compat", [Slice(list(b), 0, len(b))]))
                n += 1
                try:
                    got = float(r)
                except ValueError:
                    bad("literal:%s" % lit, "format_number_jq_compat(%r) = %r, which is not a number" % (lit, r))
                    continue
                if got != want or (str(got)[0] == "-") != (str(want)[0] == "-" and want != 0) and want != 0:
                    bad("literal:%s" % lit, "format_number_jq_compat(%r) = %r, whose value %r differs from the literal's %r" % (lit, r, got, want))
                elif JSON_NUM.match(lit) and not JSON_NUM.match(r):
                    bad("literal-grammar:%s" % lit, "format_number_jq_compat(%r) = %r is not JSON number syntax" % (lit, r))
            fns = [("jq::value::jq_bare_float_display", "json"), ("yaml::light::format_float_yq", "yaml"), ("yaml::light::format_float_yq_yaml", "yaml"), ("yaml::light::format_float_yq_yaml_nested", "yaml"), ("yaml::light::format_float_with_fraction", "json")]
            for fn, kind in fns:
                if P.fns.get(fn) is None:
                    res.bad("%s:anchor:%s" % (name, fn), "formatter %s not found (fail closed)" % fn)
                    continue
                for f in doubles(tier):
                    r = text(I.call(fn, [f]))
                    n += 1
                    t = r.strip()
                    if kind == "yaml" and t.startswith("!!float "):
                        t = t[len("!!float "):]  # an explicitly tagged float: the tag makes `1` a float
                    t2 = t[1:-1] if len(t) > 1 and t[0] in "\"'" and t[-1] == t[0] else t
                    try:
                        got = float(t2.replace("_", "x"))
                    except ValueError:
                        bad("%s:%r" % (fn.rsplit("::", 1)[-1], f), "%s(%r) = %r, which does not parse as a number" % (fn, f, r))
                        continue
                    if got != f or (got == 0 and str(got)[0] != str(f)[0] and fn.endswith("bare_float_display")):
                        bad("%s:%r" % (fn.rsplit("::", 1)[-1], f), "%s(%r) = %r, which parses back as %r" % (fn, f, r, got))
            for i in (0, 1, -1, 2**63 - 1, -(2**63), 2**53 + 1, 10**18, -(10**18) - 7):
                r = text(I.call("<bin::jq_runner::JqCompatFormatter as bin::jq_runner::LiteralFormatter>::format_int", [Adt("jq_runner::JqCompatFormatter", 0, "JqCompatFormatter", []), i])) if P.fns.get("<bin::jq_runner::JqCompatFormatter as bin::jq_runner::LiteralFormatter>::format_int") else str(i)
                n += 1
                if r != str(i):
                    bad("int:%d" % i, "format_int(%d) = %r" % (i, r))
        except Panic as e:
            res.bad("%s:panic" % name, "a number formatter panics: %s" % e)
            continue
        except (Unsupported, KeyError, IndexError, AttributeError, TypeError) as e:
            res.bad("%s:evaluate" % name, "cannot evaluate a number formatter: %r" % (e,))
            continue
        for k, m in sorted(problems.items()):
            res.bad(k, m)
        res.cells += n
        res.engines += 6
        res.ok({"literals": len(literals(tier)), "doubles": len(doubles(tier)), "evaluations": n})
    return out
