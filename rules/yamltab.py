"""YAMLTAB — x86 YAML scanning kernels evaluated from MIR: each AVX2 kernel, its SSE2 sibling,
the runtime dispatcher under both detection outcomes, and the shared scalar counterpart are run
on a finite structured family (needle byte x position across the 16/32-byte widths x length x
start offset; for the block-scalar kernel: indentation x min_indent x line-break form x
alignment) and compared with the definition and with each other."""
from .harness import RuleResult
from .minimir import Adt, Interp, Panic, Slice, Unsupported

X = "yaml::simd::x86::"
F = 0x61


def S(b):
    return Slice(list(b), 0, len(b))


def opt(r):
    if isinstance(r, Adt) and r.path.endswith("Option"):
        return r.fields[0] if r.vi == 1 else None
    return r


# ---------------------------------------------------------------- definitions
def d_find(needles):
    def f(buf, start, end=None):
        end = len(buf) if end is None else min(end, len(buf))
        for i in range(start, end):
            if buf[i] in needles:
                return i - start
        return None
    return f


def d_spaces(buf, start):
    n = 0
    while start + n < len(buf) and buf[start + n] == 0x20:
        n += 1
    return n


def d_block_end(buf, start, min_indent):
    pos = start
    L = len(buf)
    while pos < L:
        if buf[pos] in (0x0A, 0x0D):
            ls = pos + 1
            if ls >= L:
                return L
            ind = 0
            while ls + ind < L and buf[ls + ind] == 0x20:
                ind += 1
            if ls + ind < L:
                nc = buf[ls + ind]
                if nc not in (0x0A, 0x0D) and ind < min_indent:
                    return ls
        pos += 1
    return L


def d_anchor(buf, start):
    pos = start
    L = len(buf)
    while pos < L:
        b = buf[pos]
        if b in (0x20, 0x09, 0x0A, 0x0D, 0x5B, 0x5D, 0x7B, 0x7D, 0x2C):
            break
        if b == 0x3A:
            if pos + 1 < L and buf[pos + 1] in (0x20, 0x09, 0x0A, 0x0D):
                break
        pos += 1
    return pos


CLASS_FIELDS = {"newlines": 0x0A, "carriage_returns": 0x0D, "colons": 0x3A, "hyphens": 0x2D, "spaces": 0x20, "quotes_double": 0x22, "quotes_single": 0x27, "backslashes": 0x5C, "hash": 0x23}


# ---------------------------------------------------------------- families
def find_family(needles, tier, with_end):
    cases = []
    lens = [1, 15, 16, 17, 31, 32, 33, 47, 48, 49, 64, 65, 81] if tier == "thorough" else [1, 16, 17, 33, 48, 49, 65]
    near = sorted({(n + d) & 0xFF for n in needles for d in (-1, 0, 1, 0x80)} | {0, 0xFF})
    for L in lens:
        for st in sorted({0, 1, 7, 16, L - 1}):
            if st >= L:
                continue
            ends = [L] if not with_end else sorted({L, L - 1, st + 1, st + 16, st + 17, st + 32, st + 33, L + 5})
            for en in ends:
                if en <= st:
                    continue
                cases.append(([F] * L, st, en))
                for p in sorted({st, st + 1, st + 15, st + 16, st + 31, st + 32, st + 47, st + 48, L - 1, en - 1, en}):
                    if not (0 <= p < L):
                        continue
                    for c in (near if p in (st, st + 16, st + 32, L - 1) else sorted(needles)):
                        b = [F] * L
                        b[p] = c
                        if st > 0:
                            b[st - 1] = sorted(needles)[0]
                        cases.append((b, st, en))
    return cases


def block_family(tier):
    cases = []
    content = list(b"restart_policy_name: always")
    indents = [0, 1, 2, 3, 15, 16, 17, 18, 31, 32, 33, 34, 40] if tier == "thorough" else [0, 2, 15, 16, 17, 31, 32, 33, 40]
    mins = [1, 2, 3, 16, 17, 18, 32, 33, 34, 41] if tier == "thorough" else [1, 3, 17, 18, 33, 34]
    for brk in ([0x0A], [0x0D], [0x0D, 0x0A]):
        for pad in ((0, 1, 5, 13, 29) if tier == "thorough" else (0, 5, 29)):
            for ind in indents:
                for mi in mins:
                    # block header, two in-block lines at deep indent, then the probe line, then trailing content
                    deep = max(mi, ind) + 2
                    lines = [list(b"key: |")] + [[0x20] * deep + list(b"text line one")] + [[0x20] * ind + content] + [[0x20] * 2 + list(b"tail: and some more trailing content here ok")] + [list(b"last: 1")]
                    buf = [F] * pad
                    start = pad
                    for ln in lines:
                        buf += ln + brk
                    cases.append((buf, start + 6, mi))
                    # blank / whitespace-only lines inside the block must not end it
                    lines2 = [list(b"key: |")] + [[0x20] * deep + list(b"x")] + [[0x20] * ind] + [[]] + [[0x20] * ind + content] + [list(b"end: 1")]
                    buf2 = [F] * pad
                    for ln in lines2:
                        buf2 += ln + brk
                    cases.append((buf2, pad + 6, mi))
    cases.append(([F] * 10, 20, 2))
    cases.append(([0x0A], 0, 2))
    cases.append((list(b"a\n"), 0, 2))
    return cases


def anchor_family(tier):
    cases = []
    terms = [0x20, 0x09, 0x0A, 0x0D, 0x5B, 0x5D, 0x7B, 0x7D, 0x2C]
    others = [0x3A, 0x21, 0x1F, 0x0B, 0x0C, 0x5A, 0x5C, 0x7C, 0x7E, 0x2B, 0x2D, 0xA0, 0xDB, 0xFB, 0x00]
    lens = [1, 15, 16, 17, 31, 32, 33, 48, 49, 70] if tier == "thorough" else [1, 16, 17, 33, 49, 70]
    for L in lens:
        for st in sorted({0, 1, 5}):
            if st >= L:
                continue
            cases.append(([F] * L, st))
            for p in sorted({st, st + 1, st + 15, st + 16, st + 17, st + 31, st + 32, st + 33, L - 2, L - 1}):
                if not (st <= p < L):
                    continue
                for c in terms + others:
                    b = [F] * L
                    b[p] = c
                    cases.append((b, st))
                # colon followed by each kind of byte
                if p + 1 < L:
                    for nxt in (0x20, 0x09, 0x0A, 0x0D, F, 0x3A):
                        b = [F] * L
                        b[p] = 0x3A
                        b[p + 1] = nxt
                        cases.append((b, st))
    return cases


def rule_yaml_kernels(progs, tier, name="YAMLTAB"):
    out = []
    for cfg, P in progs.items():
        res = RuleResult(name, cfg)
        out.append(res)
        I = Interp(P, max_steps=1000000)
        I.features = {"avx2": True}

        def with_avx2(flag):
            I.overrides["yaml::simd::x86::avx2_enabled"] = lambda args: flag

        def check(kname, engines, cases, spec, norm=lambda x: x):
            for ename, run in engines:
                bad = None
                n = 0
                try:
                    for case in cases:
                        got = norm(run(*case))
                        exp = spec(*case)
                        n += 1
                        if got != exp and bad is None:
                            bad = (case, got, exp)
                except Panic as e:
                    res.bad("%s:%s:%s" % (name, kname, ename), "%s/%s panics or reads out of bounds: %s on len=%d args=%s" % (kname, ename, e, len(case[0]), case[1:]))
                    continue
                except (Unsupported, KeyError) as e:
                    res.bad("%s:%s:%s" % (name, kname, ename), "cannot evaluate %s/%s: %s" % (kname, ename, e))
                    continue
                res.cells += n
                res.engines += 1
                if bad:
                    case, got, exp = bad
                    nf = [(i, hex(b)) for i, b in enumerate(case[0]) if b != F][:12]
                    res.bad("%s:%s:%s" % (name, kname, ename), "%s/%s returns %r, definition gives %r, for len=%d args=%s non-filler bytes %s" % (kname, ename, got, exp, len(case[0]), case[1:], nf))
                else:
                    res.ok({"kernel": kname, "engine": ename, "cases": n})

        def disp(fn, flag, nargs):
            def run(*a):
                with_avx2(flag)
                return opt(I.call(fn, [S(a[0])] + list(a[1:])))
            return run

        def raw(fn):
            return lambda *a: opt(I.call(fn, [S(a[0])] + list(a[1:])))

        # find_quote_or_escape / find_single_quote (input, start, end)
        for kname, needles, scalar in (("find_quote_or_escape", {0x22, 0x5C}, "yaml::simd::find_quote_or_escape_scalar"), ("find_single_quote", {0x27}, "yaml::simd::find_single_quote_scalar")):
            cases = find_family(needles, tier, True)
            spec = d_find(needles)
            # the raw kernels are called by the public wrapper with start < end <= len
            inner = [c for c in cases if c[1] < c[2] <= len(c[0])]
            check(kname, [("avx2", raw(X + kname + "_avx2")), ("sse2", raw(X + kname + "_sse2")), ("scalar", raw(scalar))], inner, spec)
            check(kname, [("dispatch[avx2]", disp("yaml::simd::" + kname, 1, 3)), ("dispatch[sse2]", disp("yaml::simd::" + kname, 0, 3))], cases, spec)
        # find_newline (input, start)
        cases = [(b, s) for (b, s, e) in find_family({0x0A}, tier, False)]
        spec = d_find({0x0A})
        check("find_newline", [("avx2", raw(X + "find_newline_avx2")), ("sse2", raw(X + "find_newline_sse2")), ("scalar", raw("yaml::simd::find_newline_scalar")), ("dispatch[avx2]", disp(X + "find_newline_x86", 1, 2)), ("dispatch[sse2]", disp(X + "find_newline_x86", 0, 2))], cases, spec)
        # count_leading_spaces
        cases = []
        for L in ([0, 1, 15, 16, 17, 31, 32, 33, 47, 48, 49, 64, 65, 70] if tier == "thorough" else [0, 1, 16, 17, 32, 33, 48, 49, 70]):
            for st in (0, 1, 3):
                if st > L:
                    continue
                for k in sorted({0, 1, 15, 16, 17, 31, 32, 33, 47, 48, L - st}):
                    if st + k > L:
                        continue
                    for stop in (0x61, 0x09, 0x0A, 0x21, 0x1F, 0xA0):
                        b = [F] * L
                        for i in range(st, st + k):
                            b[i] = 0x20
                        if st + k < L:
                            b[st + k] = stop
                        cases.append((b, st))
        check("count_leading_spaces", [("avx2", raw(X + "count_leading_spaces_avx2")), ("sse2", raw(X + "count_leading_spaces_sse2")), ("scalar", raw("yaml::simd::count_leading_spaces_scalar")), ("dispatch[avx2]", disp(X + "count_leading_spaces_x86", 1, 2)), ("dispatch[sse2]", disp(X + "count_leading_spaces_x86", 0, 2))], cases, d_spaces)
        # find_block_scalar_end
        cases = block_family(tier)
        inner = [c for c in cases if c[1] < len(c[0])]
        check("find_block_scalar_end", [("avx2", raw(X + "find_block_scalar_end_avx2")), ("sse2", raw(X + "find_block_scalar_end_sse2")), ("scalar", raw("yaml::simd::scalar::find_block_scalar_end_scalar"))], inner, d_block_end)
        check("find_block_scalar_end", [("dispatch[avx2]", disp(X + "find_block_scalar_end", 1, 3)), ("dispatch[sse2]", disp(X + "find_block_scalar_end", 0, 3))], cases, lambda b, s, m: len(b) if s >= len(b) else d_block_end(b, s, m))
        # parse_anchor_name
        cases = anchor_family(tier)
        inner = [c for c in cases if c[1] + 16 <= len(c[0])]
        check("parse_anchor_name", [("avx2", raw(X + "parse_anchor_name_avx2"))], inner, d_anchor)
        check("parse_anchor_name", [("scalar", raw("yaml::simd::scalar::parse_anchor_name_scalar")), ("dispatch[avx2]", disp(X + "parse_anchor_name", 1, 2)), ("dispatch[sse2]", disp(X + "parse_anchor_name", 0, 2))], cases, d_anchor)
        # classify_yaml_chars: every byte value at every lane, both HAS_CR instantiations
        adt = P.adts.get("yaml::simd::x86::YamlCharClass")
        if adt is None:
            res.bad("%s:classify:anchor" % name, "YamlCharClass not found")
        else:
            fields = [f["name"] for f in adt["variants"][0]["fields"]]
            for eng, fn, W in (("avx2", X + "classify_yaml_chars_avx2", 32), ("sse2", X + "classify_yaml_chars_sse2", 16)):
                bad = None
                n = 0
                try:
                    for has_cr in (1, 0):
                        lanes = range(W) if tier == "thorough" else sorted({0, 1, 7, 8, 15, W - 1})
                        for c in range(256):
                            for lane in lanes:
                                b = [F] * (W + 3)
                                b[2 + lane] = c
                                r = I.call(fn, [S(b), 2], gen={"HAS_CR": has_cr})
                                vals = dict(zip(fields, r.fields))
                                n += 1
                                for fname, byte in CLASS_FIELDS.items():
                                    exp = (1 << lane) if c == byte else 0
                                    if fname == "carriage_returns" and not has_cr:
                                        exp = 0
                                    if vals[fname] != exp and bad is None:
                                        bad = (c, lane, fname, vals[fname], exp, has_cr)
                                if vals["width"] != W and bad is None:
                                    bad = (c, lane, "width", vals["width"], W, has_cr)
                except (Unsupported, Panic, KeyError) as e:
                    res.bad("%s:classify_yaml_chars:%s" % (name, eng), "cannot evaluate classifier: %s" % e)
                    continue
                res.cells += n
                res.engines += 1
                if bad:
                    res.bad("%s:classify_yaml_chars:%s" % (name, eng), "byte 0x%02x at lane %d: field %s = %#x, definition gives %#x (HAS_CR=%d)" % bad)
                else:
                    res.ok({"kernel": "classify_yaml_chars", "engine": eng, "cases": n})
        res.require_floor(28, "kernel x engine tabulations")
    return out
