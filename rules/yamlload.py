"""YAMLLOAD — the YAML loader evaluated from MIR on the generated presentation space
(rules/yamlgen.py): `YamlIndex::build` (oracle parser, index construction), then
`YamlIndex::root(text).to_json_document()` (cursor navigation, scalar decoding / plain
resolution, alias resolution, JSON streaming); the JSON text is read with Python's json module
and must equal the generated tree (one value per document; several documents -> the array of
them), with exact types (a string stays a string, an int an int).  Each stream is evaluated
with LF breaks, and a share of them again with CRLF and with lone CR.  One violation key per
failing stream (seed), so a recorded finding never hides a different failure."""
import json

from .harness import RuleResult
from .minimir import Adt, Interp, Panic, Slice, Unsupported
from .stdmodel import StrBuf, tmp_ref
from . import yamlgen


def _nest(levels, inner_lines, inner_value_builder):
    """`levels` nested single-key mappings (2 spaces each) around `inner_lines`."""
    lines = []
    for i in range(levels):
        lines.append("  " * i + "k%d:" % i)
    pad = "  " * levels
    lines += [pad + x if x else "" for x in inner_lines]
    v = inner_value_builder
    for i in reversed(range(levels)):
        v = {"k%d" % i: v}
    return "\n".join(lines) + "\n", v


def _deep_named():
    """Block scalars at the indentation columns where the SIMD block-scalar kernels change
    regime (16- and 32-byte vectors): key at column 14..18 / 30..34 followed by a sibling whose
    first bytes hold no blank, and content lines indented past columns 16 and 32."""
    out = []
    for levels in (7, 8, 9, 15, 16, 17):
        text, v = _nest(levels, ["script: |", "  line one", "  line two", "terminationMessagePath: /dev/termination-log", "other: 1"],
                        {"script": "line one\nline two\n", "terminationMessagePath": "/dev/termination-log", "other": 1})
        out.append(("block-scalar-then-sibling-col%d" % (2 * levels), text + "tail: " + "x" * 40 + "\n", dict(list(v.items()) + [("tail", "x" * 40)])))
        text, v = _nest(levels, ["folded: >-", "  aaa bbb", "  ccc", "", "  ddd", "next_key_without_blank_bytes_here: [1, 2]"],
                        {"folded": "aaa bbb ccc\nddd", "next_key_without_blank_bytes_here": [1, 2]})
        out.append(("folded-scalar-then-sibling-col%d" % (2 * levels), text + "tail: " + "y" * 40 + "\n", dict(list(v.items()) + [("tail", "y" * 40)])))
    return out


# named documents: shapes that the random family keeps out (one root cause, one key) or seldom reaches
NAMED = [
    ("comment-with-colon-after-plain-seq-item", "- a #key: value\n", ["a"]),
    ("comment-with-colon-after-plain-explicit-value", "? k\n: null #key: value\n", {"k": None}),
    ("comment-with-colon-after-plain-root", "a #key: value\n", "a"),
    ("comment-with-colon-after-plain-map-value", "k: v #key: value\n", {"k": "v"}),
    ("comment-with-colon-after-quoted-seq-item", "- 'a' #key: value\n- \"b\" # c: d\n", ["a", "b"]),
    ("root-literal-with-colon", "|-\n  a: b\n", "a: b"),
    ("root-literal-after-marker-with-colon", "---\n|-\n  : x\n", ": x"),
    ("root-literal-two-lines-with-colons", "|\n  a: b\n  c: d\n", "a: b\nc: d\n"),
    ("root-folded-with-hash", ">-\n  a #b\n  c\n", "a #b c"),
    ("root-literal-on-marker-line", "--- |-\n  a: b\n", "a: b"),
    ("nested-literal-header-on-next-line", "k:\n  |-\n   a: b\n", {"k": "a: b"}),
    ("seq-literal-with-colon", "- |-\n  a: b\n- >-\n  c: d\n", ["a: b", "c: d"]),
    ("root-literal-then-document", "|-\n  a: b\n---\nx: 1\n", ["a: b", {"x": 1}]),
    # markers that end the stream without a line break after them
    ("plain-root-then-end-marker-at-eof", "hello\n...", "hello"),
    ("int-root-then-end-marker-at-eof", "--- 42\n...", 42),
    ("two-scalar-documents-marker-at-eof-then-document", "--- a\n--- b\n...", ["a", "b"]),
    ("map-root-then-end-marker-at-eof", "a: 1\n...", {"a": 1}),
    ("quoted-root-then-end-marker-at-eof", "'x'\n...", "x"),
    ("multi-line-plain-root-then-marker-at-eof", "one\n two\n...", "one two"),
] + _deep_named()


def same(a, b):
    if type(a) is not type(b):
        if isinstance(a, (int, float)) and isinstance(b, (int, float)) and not isinstance(a, bool) and not isinstance(b, bool):
            return float(a) == float(b) and (isinstance(a, int) == isinstance(b, int) or float(a) != int(float(a)) or abs(a) > 2**53)
        return False
    if isinstance(a, dict):
        return list(a.keys()) == list(b.keys()) and all(same(a[k], b[k]) for k in a)
    if isinstance(a, list):
        return len(a) == len(b) and all(same(x, y) for x, y in zip(a, b))
    return a == b


def load(I, data, json_sourced=False):
    js = Slice(list(data), 0, len(data))
    r = I.call("yaml::index::YamlIndex::build", [js])
    if not (isinstance(r, Adt) and r.vname == "Ok"):
        return ("error", r.fields[0] if isinstance(r, Adt) else r)
    ix = r.fields[0]
    if json_sourced:
        I.call("yaml::index::YamlIndex::<W>::mark_json_sourced", [tmp_ref(ix)])
    root = I.call("yaml::index::YamlIndex::<W>::root", [tmp_ref(ix), js])
    out = I.call("yaml::light::YamlCursor::<'a, W>::to_json_document", [tmp_ref(root)])
    if isinstance(out, StrBuf):
        return ("json", bytes(out.b).decode("utf-8", "replace"))
    return ("error", out)


def rule_load(progs, tier, name="YAMLLOAD", n_quick=160, n_thorough=600):
    out = []
    for cfg, P in progs.items():
        res = RuleResult(name, cfg)
        out.append(res)
        I = Interp(P, max_steps=80000000, max_depth=300)
        n = n_thorough if tier == "thorough" else n_quick
        fam, dropped = yamlgen.streams(n, seed0=1, max_depth=3)
        if len(fam) < n * 0.8:
            res.bad("%s:family" % name, "the generator produced only %d of %d streams (fail closed)" % (len(fam), n))
            continue
        nrun = 0
        flip = 0
        crashed = False
        items = [(nm, text, [exp_] if not (isinstance(exp_, list) and nm.endswith("-then-document")) else exp_) for nm, text, exp_ in NAMED] + fam
        # CR / CRLF variants only where the text has a break to vary
        for seed, text, docs in items:
            variants = [("lf", text)]
            if isinstance(seed, str):
                variants += [("crlf", text.replace("\n", "\r\n"))]
                seed_mod = None
            else:
                seed_mod = seed % 4
            if seed_mod == 0:
                variants.append(("crlf", text.replace("\n", "\r\n")))
            if seed_mod == 2:
                variants.append(("cr", text.replace("\n", "\r")))
            exp = docs[0] if len(docs) == 1 else docs
            for vname, t in variants:
                yield_key = ("%s:doc:%s" % (name, seed)) if isinstance(seed, str) else ("%s:stream-%d%s" % (name, seed, "" if vname == "lf" else "-" + vname))
                flip ^= 1
                I.features = {"avx2": bool(flip), "bmi2": bool(flip), "sse4.1": True, "sse4.2": True, "ssse3": True, "sse2": True}
                for f in ("util::simd::x86::has_fast_bmi2", "bits::scan::has_avx2"):
                    I.overrides[f] = lambda a, f=flip: f
                I.overrides["yaml::simd::x86::avx2_enabled"] = lambda a, f=flip: f
                I.overrides["util::simd::escape::avx2_enabled"] = lambda a, f=flip: f
                I.statics.clear()
                key = yield_key
                sd = "document %r" % seed if isinstance(seed, str) else "generated stream %d" % seed
                nrun += 1
                try:
                    kind, val = load(I, t.encode("utf-8"))
                except Panic as e:
                    res.bad(key, "the loader panics on %s (%s breaks) %r: %s" % (sd, vname, t[:120], e))
                    continue
                except (Unsupported, KeyError, IndexError, AttributeError, TypeError) as e:
                    res.bad("%s:evaluate" % name, "cannot evaluate the loader on %s %r: %r" % (sd, t[:120], e))
                    crashed = True
                    break
                if kind == "error":
                    res.bad(key, "the loader rejects the well-formed %s (%s breaks) %r: %r" % (sd, vname, t[:160], val))
                    continue
                try:
                    got = json.loads(val)
                except ValueError as e:
                    res.bad(key, "to_json_document() of %s (%s breaks) is not JSON: %r (%s)" % (sd, vname, val[:120], e))
                    continue
                if not same(got, exp):
                    res.bad(key, "%s (%s breaks) %r loads as %s, the tree written out was %s" % (sd, vname, t[:200], json.dumps(got)[:160], json.dumps(exp)[:160]))
            if crashed:
                break
        for seed, text, docs in []:
            variants = [("lf", text)]
            if seed % 4 == 0:
                variants.append(("crlf", text.replace("\n", "\r\n")))
            if seed % 4 == 2:
                variants.append(("cr", text.replace("\n", "\r")))
            exp = docs[0] if len(docs) == 1 else docs
            for vname, t in variants:
                flip ^= 1
                I.features = {"avx2": bool(flip), "bmi2": bool(flip), "sse4.1": True, "sse4.2": True, "ssse3": True, "sse2": True}
                for f in ("util::simd::x86::has_fast_bmi2", "bits::scan::has_avx2"):
                    I.overrides[f] = lambda a, f=flip: f
                I.overrides["yaml::simd::x86::avx2_enabled"] = lambda a, f=flip: f
                I.overrides["util::simd::escape::avx2_enabled"] = lambda a, f=flip: f
                I.statics.clear()
                key = "%s:stream-%d%s" % (name, seed, "" if vname == "lf" else "-" + vname)
                nrun += 1
                try:
                    kind, val = load(I, t.encode("utf-8"))
                except Panic as e:
                    res.bad(key, "the loader panics on generated stream %d (%s breaks) %r: %s" % (seed, vname, t[:120], e))
                    continue
                except (Unsupported, KeyError, IndexError, AttributeError, TypeError) as e:
                    res.bad("%s:evaluate" % name, "cannot evaluate the loader on generated stream %d %r: %r" % (seed, t[:120], e))
                    crashed = True
                    break
                if kind == "error":
                    res.bad(key, "the loader rejects the well-formed generated stream %d (%s breaks) %r: %r" % (seed, vname, t[:160], val))
                    continue
                try:
                    got = json.loads(val)
                except ValueError as e:
                    res.bad(key, "to_json_document() of generated stream %d (%s breaks) is not JSON: %r (%s)" % (seed, vname, val[:120], e))
                    continue
                if not same(got, exp):
                    res.bad(key, "generated stream %d (%s breaks) %r loads as %s, the tree written out was %s" % (seed, vname, t[:200], json.dumps(got)[:160], json.dumps(exp)[:160]))
            if crashed:
                break
        res.cells += nrun
        res.engines += 1
        res.ok({"streams": len(fam), "named_documents": len(NAMED), "evaluations": nrun, "dropped_by_pyyaml_crosscheck": dropped})
    return out


EDGE_INT_TREES = [
    ("ints-beyond-2^53", {"a": 9007199254740993, "b": -9007199254740993, "c": [9007199254740992, 9007199254740995, 1234567890123456789]}),
    ("ints-i64-edges", {"max": 9223372036854775807, "min": -9223372036854775808, "near": [9223372036854775806, -9223372036854775807]}),
    ("ints-round-numbers", [0, -0, 10, 100, 1000000, 10000000000000000000000 // 10**6, 4503599627370497, 100000000000000000]),
]


def rule_load_json(progs, tier, name="YAMLLOAD(json)", n_quick=50, n_thorough=300):
    """C26, identity clause: the same tree supplied as JSON text (compact and indented; non-ASCII raw
    and \\u-escaped) goes through the route yq uses for JSON input (`YamlIndex::build` +
    `mark_json_sourced`) and must load as the tree, as its block / flow YAML renderings must
    (YAMLLOAD); so the three renderings agree."""
    out = []
    for cfg, P in progs.items():
        res = RuleResult(name, cfg)
        out.append(res)
        I = Interp(P, max_steps=80000000, max_depth=300)
        n = n_thorough if tier == "thorough" else n_quick
        fam, dropped = yamlgen.streams(n, seed0=9000, max_depth=3, want_selfcheck=False)
        # integer leaves at the edges of what a double / an i64 holds: the generator's integers are small
        fam = [(nm, None, [tr]) for nm, tr in EDGE_INT_TREES] + fam
        nrun = 0
        flip = 0
        crashed = False
        for seed, _text, docs in fam:
            tree = docs[0]
            variants = [("compact", json.dumps(tree, ensure_ascii=False, separators=(",", ":"))), ("indented-ascii", json.dumps(tree, indent=2) + "\n")]
            if isinstance(seed, str):
                # the same text read as (flow) YAML, without the JSON-sourced mark
                variants.append(("as-yaml", json.dumps(tree) + "\n"))
            for vname, t in variants:
                flip ^= 1
                I.features = {"avx2": bool(flip), "bmi2": bool(flip), "sse4.1": True, "sse4.2": True, "ssse3": True, "sse2": True}
                for f in ("util::simd::x86::has_fast_bmi2", "bits::scan::has_avx2"):
                    I.overrides[f] = lambda a, f=flip: f
                I.overrides["yaml::simd::x86::avx2_enabled"] = lambda a, f=flip: f
                I.overrides["util::simd::escape::avx2_enabled"] = lambda a, f=flip: f
                I.statics.clear()
                key = "%s:tree-%s-%s" % (name, seed, vname)
                nrun += 1
                try:
                    kind, val = load(I, t.encode("utf-8"), json_sourced=(vname != "as-yaml"))
                except Panic as e:
                    res.bad(key, "the loader panics on the JSON text %r: %s" % (t[:120], e))
                    continue
                except (Unsupported, KeyError, IndexError, AttributeError, TypeError) as e:
                    res.bad("%s:evaluate" % name, "cannot evaluate the loader on the JSON text %r: %r" % (t[:120], e))
                    crashed = True
                    break
                if kind == "error":
                    res.bad(key, "the loader rejects the JSON text %r: %r" % (t[:160], val))
                    continue
                try:
                    got = json.loads(val)
                except ValueError as e:
                    res.bad(key, "to_json_document() of the JSON text %r is not JSON: %r" % (t[:120], val[:120]))
                    continue
                if not same(got, tree):
                    res.bad(key, "the JSON text %r loads as %s" % (t[:200], json.dumps(got)[:200]))
            if crashed:
                break
        res.cells += nrun
        res.engines += 1
        res.ok({"trees": len(fam), "evaluations": nrun})
    return out


def rule_route_json(progs, tier, name="YAMLROUTE(json)", n_quick=40, n_thorough=250):
    """C27, JSON-output clause on YAML input, at the library's two printing entry points: for the
    cursors a navigation program yields (each document, its fields / elements, one level below),
    `DocumentCursor::stream_json` (streamed straight from the YAML cursor) and
    `to_owned_cursor` + `StreamableValue::stream_json` (materialised first) must write the same text,
    compact and indented, with and without sort-keys.  YAML output is not compared: the streamed
    route preserves the source's styling by design."""
    out = []
    for cfg, P in progs.items():
        res = RuleResult(name, cfg)
        out.append(res)
        I = Interp(P, max_steps=40000000, max_depth=300)
        n = n_thorough if tier == "thorough" else n_quick
        fam, dropped = yamlgen.streams(n, seed0=300, max_depth=3)
        # U+2028 / U+2029 are a separately named document (a known difference between the routes)
        fam = [x for x in fam if chr(0x2028) not in x[1] and chr(0x2029) not in x[1] and "\\L" not in x[1] and "\\P" not in x[1]]
        fam = [("line-separator-in-string", '- "ls\\Lx"\n- "ps\\Px"\n', None), ("plain-scalars-and-numbers", "a: 1\nb: 1.50\nc: 0x1F\nd: ~\ne: 'q'\nf: [1e3, -0.0, .5]\n", None)] + fam
        nrun = 0
        crashed = False
        Y = "yaml::light::YamlCursor::<'a, W>::"
        for seed, text, docs in fam:
            I.statics.clear()
            data = text.encode("utf-8")
            js = Slice(list(data), 0, len(data))
            try:
                r = I.call("yaml::index::YamlIndex::build", [js])
                if not (isinstance(r, Adt) and r.vname == "Ok"):
                    continue
                ix = r.fields[0]
                root = I.call("yaml::index::YamlIndex::<W>::root", [tmp_ref(ix), js])
                cursors = []
                c = I.call(Y + "first_child", [tmp_ref(root)])
                while c.vi == 1:
                    cursors.append(c.fields[0])
                    c2 = I.call(Y + "first_child", [tmp_ref(c.fields[0])])
                    k = 0
                    while c2.vi == 1 and k < 5:
                        cursors.append(c2.fields[0])
                        if k == 1:
                            c3 = I.call(Y + "first_child", [tmp_ref(c2.fields[0])])
                            if c3.vi == 1:
                                cursors.append(c3.fields[0])
                        k += 1
                        c2 = I.call(Y + "next_sibling", [tmp_ref(c2.fields[0])])
                    c = I.call(Y + "next_sibling", [tmp_ref(c.fields[0])])
                for ci, cur in enumerate(cursors):
                    for w, sk in ((0, 0), (2, 0), (0, 1), (3, 1)):
                        spec = Adt("jq::document::IndentSpec", 0, "IndentSpec", [w, 32])
                        a, b = StrBuf([]), StrBuf([])
                        ra = I.call("<yaml::light::YamlCursor<'a, W> as jq::document::DocumentCursor>::stream_json", [tmp_ref(cur), tmp_ref(a), spec, sk], gen={"W": "std::vec::Vec<u64>", "Out": "std::string::String"})
                        ov = I.call("jq::eval_generic::to_owned_cursor", [tmp_ref(cur)], gen={"C": "yaml::light::YamlCursor<'a, std::vec::Vec<u64>>"})
                        rb = I.call("<jq::value::OwnedValue as jq::stream::StreamableValue>::stream_json", [tmp_ref(ov), tmp_ref(b), spec, sk], gen={"W": "std::string::String"})
                        nrun += 1
                        if ra.vname != rb.vname or (ra.vname == "Ok" and bytes(a.b) != bytes(b.b)):
                            res.bad(("%s:stream-%d" % (name, seed)) if isinstance(seed, int) else ("%s:doc:%s" % (name, seed)), "stream %r %r, cursor %d (indent %d, sort-keys %d): streamed from the cursor %s %r, materialised first %s %r" % (seed, text[:100], ci, w, sk, ra.vname, bytes(a.b)[:120], rb.vname, bytes(b.b)[:120]))
                            raise StopIteration
            except StopIteration:
                continue
            except Panic as e:
                res.bad("%s:stream-%s" % (name, seed), "printing stream %r %r panics: %s" % (seed, text[:100], e))
            except (Unsupported, KeyError, IndexError, AttributeError, TypeError) as e:
                res.bad("%s:evaluate" % name, "cannot evaluate the two printing routes on stream %r %r: %r" % (seed, text[:100], e))
                crashed = True
                break
        res.cells += nrun
        res.engines += 2
        res.ok({"streams": len(fam), "comparisons": nrun})
    return out
