"""JQIDENT (C25) — jq's value identities evaluated from MIR through the library evaluator
(`jq::parser::parse` + `jq::eval::eval::<Vec<u64>, JqSemantics>`) and, where it evaluates there,
the CLI evaluator: each identity is a program whose only correct output is `true`, run on a
family of JSON values (nested, duplicate-free, every scalar kind, non-ASCII strings, extreme
numbers): tojson|fromjson, to_entries|from_entries, tostream -> fromstream, @base64|@base64d,
@uri|@urid on strings, setpath(p; getpath(p)) and getpath(p) for every p in paths, sort / unique
order and multiset laws under jq's total order, and "assignment to a path changes exactly that
path".  A pair that needs an unmodelled item is skipped and counted (fail closed below the floor)."""
import json

from .harness import RuleResult
from .minimir import Adt, Interp, Panic, Slice, Unsupported
from .stdmodel import tmp_ref
from .jqeval import canon, ending, ov

IDENTITIES = [
    ("tojson-fromjson", "(tojson|fromjson) == ."),
    ("tojson-is-string", "tojson|type == \"string\""),
    ("to_entries-from_entries", "if type == \"object\" then (to_entries|from_entries) == . else true end"),
    ("with_entries-identity", "if type == \"object\" then with_entries(.) == . else true end"),
    ("tostream-fromstream", "fromstream(tostream) == ."),
    ("tostream-leaf-count", "([tostream|select(length==2)]|length) == ([leaf_paths]|length) or ([leaf_paths]|length)==0"),
    ("base64-roundtrip", "if type == \"string\" then (@base64|@base64d) == . else true end"),
    ("uri-roundtrip", "if type == \"string\" then (@uri|@urid) == . else true end"),
    ("setpath-getpath", ". as $x | all(paths; . as $p | ($x | setpath($p; ($x|getpath($p)))) == $x)"),
    ("getpath-of-paths-defined", ". as $x | [paths] | length == ([$x|..]|length - 1)"),
    ("sort-is-permutation", "if type == \"array\" then (sort|length) == length and ((sort|sort) == sort) else true end"),
    ("sort-is-ordered", "if type == \"array\" and length > 1 then ([sort|.[:-1], .[1:]] | transpose | all(.[0] <= .[1])) else true end"),
    ("unique-is-sorted-dedup", "if type == \"array\" then (unique == (sort|unique)) and ((unique|length) <= length) and (unique|sort) == unique else true end"),
    ("unique-no-adjacent-equal", "if type == \"array\" and (unique|length) > 1 then ([unique|.[:-1], .[1:]] | transpose | all(.[0] < .[1])) else true end"),
    ("assignment-hits-the-path", ". as $x | all(paths; . as $p | ($x | setpath($p; \"Z\") | getpath($p)) == \"Z\")"),
    ("assignment-leaves-siblings", ". as $x | [paths] as $ps | all($ps[]; . as $p | ($x | setpath($p; \"Z\")) as $y | all($ps[]; . as $q | if ($q[:($p|length)] == $p) or ($p[:($q|length)] == $q) then true else ($y|getpath($q)) == ($x|getpath($q)) end))"),
    ("order-antisymmetric", "if type == \"array\" then ([.[] as $x | .[] as $y | (($x < $y) and ($y < $x))] | any | not) else true end"),
    ("order-total", "if type == \"array\" then ([.[] as $x | .[] as $y | (($x < $y) or ($y < $x) or ($x == $y))] | all) else true end"),
    ("sort-independent-of-input-order", "if type == \"array\" then sort == (reverse|sort) else true end"),
    ("unique-independent-of-input-order", "if type == \"array\" then unique == (reverse|unique) else true end"),
    ("add-of-singletons", "if type == \"array\" then ([.[]|[.]]|add) == (if length == 0 then null else . end) else true end"),
    ("keys-sorted", "if type == \"object\" then (keys == (keys_unsorted|sort)) else true end"),
    ("reverse-involution", "if type == \"array\" or type == \"string\" then (reverse|reverse) == . else true end"),
    ("explode-implode", "if type == \"string\" then (explode|implode) == . else true end"),
    ("tostring-of-string", "if type == \"string\" then tostring == . else (tostring|type) == \"string\" end"),
    ("length-of-keys", "if type == \"object\" or type == \"array\" then (keys|length) == length else true end"),
]

VALUES = [
    "null", "true", "false", "0", "-1", "1.5", "1e300", "-1e-300", "9007199254740993", "100000000000000000000", '""', '"abc"', '"é 日本 😀"', '"a\\"b\\\\c\\n\\t\\u0001"', '"%41 +/?&=#"', '" lead trail "',
    "[]", "{}", "[1,2,3]", "[3,1,2,1,3]", '[null,false,true,0,-1,"a","A","",[],[0],{},{"a":1}]', '["b","a","c","a","é"]', "[[1],[0,1],[],[1,0]]", '[{"a":1},{"a":0},{"b":0},{"a":1,"b":0}]', "[1,1.0,1e0,10,2]",
    '{"a":1,"b":2}', '{"b":1,"a":2}', '{"a":{"b":[1,2,{"c":null}]},"d":"x"}', '{"":0," ":1,"a b":2,"é":3}', '{"a":[],"b":{},"c":[[]],"d":[{}]}', '[[[[[1]]]],{"a":{"a":{"a":"deep"}}}]', '{"k":[true,false,null],"n":[0,-0.0,1e2]}',
]


def rule_identities(progs, tier, name="JQIDENT", floor_share=None):
    if floor_share is None:
        # measured: 96 % of the quick evaluations are carried out
        floor_share = 0.9 if tier != "thorough" else 0.8
    out = []
    for cfg, P in progs.items():
        res = RuleResult(name, cfg)
        out.append(res)
        I = Interp(P, max_steps=1500000, max_depth=600)
        I.features = {"avx2": True, "bmi2": True, "sse4.1": True, "sse4.2": True, "ssse3": True, "sse2": True}
        values = VALUES if tier == "thorough" else ["null", "1.5", '"é 日本 😀"', '"%41 +/?&=#"', "[3,1,2,1,3]", '[null,false,true,0,-1,"a","A","",[],[0],{},{"a":1}]', "[[1],[0,1],[],[1,0]]", '[{"a":1,"b":2},{"b":1,"a":2}]', '{"b":1,"a":2}', '{"a":{"b":[1,2,{"c":null}]},"d":"x"}']
        n_ok = n_skip = 0
        skipped = {}
        for iname, prog in IDENTITIES:
            pb = prog.encode("utf-8")
            try:
                pr = I.call("jq::parser::parse", [Slice(list(pb), 0, len(pb))])
            except (Unsupported, Panic, KeyError, IndexError, AttributeError, TypeError, RecursionError) as e:
                res.bad("%s:%s:parse" % (name, iname), "cannot evaluate the parser on `%s`: %r" % (prog, e))
                continue
            if not (isinstance(pr, Adt) and pr.vname == "Ok"):
                res.bad("%s:%s:parse" % (name, iname), "the identity program `%s` does not parse: %r" % (prog, pr))
                continue
            expr = pr.fields[0]
            for doc in values:
                I.statics.clear()
                b = doc.encode("utf-8")
                js = Slice(list(b), 0, len(b))
                for side in ("library", "cli"):
                    try:
                        ix = I.call("json::light::JsonIndex::build", [js])
                        cur = I.call("json::light::JsonIndex::<W>::root", [tmp_ref(ix), js])
                        if side == "library":
                            r = I.call("jq::eval::eval", [tmp_ref(expr), cur], gen={"W": "std::vec::Vec<u64>", "S": "jq::eval::JqSemantics"})
                            end = ending(I, r)
                            vals = I.call("jq::eval::QueryResult::<'_, W>::collect_owned", [r], gen={"W": "std::vec::Vec<u64>"})
                        else:
                            r = I.call("jq::eval_generic::eval_with_cursor", [tmp_ref(expr), cur], gen={"C": "json::light::JsonCursor<'a, std::vec::Vec<u64>>"})
                            r = I.call("jq::eval_generic::GenericResult::<V>::materialize_lazy", [r], gen={"V": "json::light::StandardJson<'a, std::vec::Vec<u64>>"})
                            end = ending(I, r)
                            vals = I.call("jq::eval_generic::GenericResult::<V>::collect_owned", [r], gen={"V": "json::light::StandardJson<'a, std::vec::Vec<u64>>"})
                        got = [canon(ov(I, v)) for v in vals]
                    except Panic as e:
                        res.bad("%s:%s@%s" % (name, iname, doc), "`%s` on %s panics in the %s evaluator: %s" % (prog, doc[:60], side, e))
                        continue
                    except (Unsupported, KeyError, IndexError, AttributeError, TypeError, RecursionError, ValueError, OverflowError) as e:
                        n_skip += 1
                        k_ = "%s: %s" % (side, str(e)[:80])
                        skipped[k_] = skipped.get(k_, 0) + 1
                        continue
                    n_ok += 1
                    if got != [True] or end != ("end", None):
                        res.bad("%s:%s@%s" % (name, iname, doc), "identity `%s` on %s: the %s evaluator gives %s ending %r, expected true" % (prog, doc[:80], side, repr(got)[:160], end))
        res.cells += n_ok
        res.engines += 2
        for k_, c_ in sorted(skipped.items(), key=lambda kv: -kv[1])[:10]:
            res.note("skipped %d evaluations: %s" % (c_, k_))
        total = n_ok + n_skip
        if total == 0 or n_ok / total < floor_share:
            res.bad("%s:coverage" % name, "only %d of %d identity evaluations could be carried out (floor %.0f%%) (fail closed)" % (n_ok, total, floor_share * 100))
        res.ok({"identities": len(IDENTITIES), "values": len(values), "evaluations": n_ok, "skipped_unmodelled": n_skip})
    return out
