"""BPTAB — the balanced-parentheses structure evaluated from MIR: constructors
(`new`, borrowed `from_words`, `new_with_cspoppy`, `assemble_with_rate` at several sample rates)
and every navigation / rank / select operation, on (a) every bit string up to a bounded length
(balanced or not, with and without stray bits past `len`) and (b) boundary families that cross
the 64-bit word, the 8-word rank block, the 32-word L1 block and (thorough) the 1024-word L2
block, against the linear excess-scan definitions.  Bounded-exhaustive, not all inputs."""
from .harness import RuleResult
from .minimir import Adt, Interp, Panic, Slice, Unsupported
from .stdmodel import tmp_ref

M64 = (1 << 64) - 1
T = "trees::bp::BalancedParens::<W, S>::"


def to_words(bits, stray=0):
    n = (len(bits) + 63) // 64
    words = [0] * max(n, 0)
    for i, b in enumerate(bits):
        if b:
            words[i // 64] |= 1 << (i % 64)
    if stray and words:
        r = len(bits) % 64
        if r:
            words[-1] |= (M64 << r) & M64 & stray
    return words


def opt(r):
    if isinstance(r, Adt) and r.path.endswith("Option"):
        return r.fields[0] if r.vi == 1 else None
    return r


# ---------------------------------------------------------------- definitions (linear scans)
def d_find_close(b, p):
    if p >= len(b) or not b[p]:
        return None
    e = 1
    for q in range(p + 1, len(b)):
        e += 1 if b[q] else -1
        if e == 0:
            return q
    return None


def d_find_open(b, p):
    if p >= len(b) or b[p]:
        return None
    e = 1
    for q in range(p - 1, -1, -1):
        e += -1 if b[q] else 1
        if e == 0:
            return q
    return None


def d_enclose(b, p):
    if p >= len(b) or not b[p]:
        return None
    e = 0
    for q in range(p - 1, -1, -1):
        if b[q]:
            if e == 0:
                return q
            e -= 1
        else:
            e += 1
    return None


def d_excess(b, p):
    if p >= len(b):
        return 0
    o = sum(b[: p + 1])
    return 2 * o - (p + 1)


def d_next_sibling(b, p):
    if p >= len(b) or not b[p]:
        return None
    c = d_find_close(b, p)
    if c is None:
        return None
    return c + 1 if c + 1 < len(b) and b[c + 1] else None


def d_first_child(b, p):
    if p >= len(b) or not b[p] or p + 1 >= len(b):
        return None
    return p + 1 if b[p + 1] else None


def d_subtree(b, p):
    c = d_find_close(b, p)
    return None if c is None else (c - p) // 2


def d_rank1(b, p):
    return sum(b[: min(p, len(b))])


def d_rank0(b, p):
    q = min(p, len(b))
    return q - sum(b[:q])


def d_select(b, k, bit):
    c = 0
    for i, x in enumerate(b):
        if x == bit:
            if c == k:
                return i
            c += 1
    return None


class Spec:
    """The same definitions, precomputed in one pass (for the large boundary strings)."""

    def __init__(self, b):
        n = len(b)
        self.b = b
        self.close_of = [None] * n
        self.open_of = [None] * n
        self.par = [None] * n
        st = []
        self.pre = [0] * (n + 1)
        for i, x in enumerate(b):
            self.pre[i + 1] = self.pre[i] + x
            if x:
                self.par[i] = st[-1] if st else None
                st.append(i)
            elif st:
                o = st.pop()
                self.close_of[o] = i
                self.open_of[i] = o
        self.ones = [i for i, x in enumerate(b) if x]
        self.zeros = [i for i, x in enumerate(b) if not x]

    def find_close(self, p):
        return self.close_of[p] if p < len(self.b) and self.b[p] else None

    def find_open(self, p):
        return self.open_of[p] if p < len(self.b) and not self.b[p] else None

    def enclose(self, p):
        return self.par[p] if p < len(self.b) and self.b[p] else None

    parent = enclose

    def excess(self, p):
        return 0 if p >= len(self.b) else 2 * self.pre[p + 1] - (p + 1)

    def next_sibling(self, p):
        c = self.find_close(p)
        if c is None:
            return None
        return c + 1 if c + 1 < len(self.b) and self.b[c + 1] else None

    def first_child(self, p):
        b = self.b
        if p >= len(b) or not b[p] or p + 1 >= len(b):
            return None
        return p + 1 if b[p + 1] else None

    def subtree_size(self, p):
        c = self.find_close(p)
        return None if c is None else (c - p) // 2

    def rank1(self, p):
        return self.pre[min(p, len(self.b))]

    def rank0(self, p):
        q = min(p, len(self.b))
        return q - self.pre[q]

    def select(self, k, bit):
        a = self.ones if bit else self.zeros
        return a[k] if k < len(a) else None


def l2_strings(tier):
    """Shapes whose 2048-bit (L1) and 65536-bit (L2) blocks have positive, negative and zero net
    excess in every order, so the per-block minimum is attained in blocks of each sign; returns
    (bits, positions of interest)."""
    shapes = [
        [("o", 1), ("f", 33268), ("c", 1), ("o", 70000), ("c", 70000)],
        [("o", 3000), ("f", 31000), ("o", 66000), ("c", 66000), ("f", 500), ("c", 3000)],
    ]
    if tier == "thorough":
        shapes += [
            [("f", 100), ("o", 70000), ("c", 69000), ("o", 500), ("f", 33000), ("c", 500), ("c", 1000)],
            [("o", 140000), ("f", 10)],
            [("c", 70000), ("o", 70000), ("f", 1000), ("c", 69000)],
        ]
    out = []
    for sh in shapes:
        bits = []
        marks = set()
        for k, n in sh:
            marks.update((len(bits) - 1, len(bits), len(bits) + 1))
            bits += [1] * n if k == "o" else [0] * n if k == "c" else [1, 0] * n
        L = len(bits)
        marks.update((L - 2, L - 1, L, L + 1))
        for blk in ((2048, 65536) if tier == "thorough" else (65536,)):
            for m in range(blk, L, blk * (1 if blk == 65536 else 16)):
                marks.update((m - 1, m, m + 1))
        out.append((bits, sorted(p for p in marks if 0 <= p <= L + 1)))
    return out


OPS = [
    ("find_close", d_find_close), ("find_open", d_find_open), ("enclose", d_enclose), ("parent", d_enclose),
    ("excess", d_excess), ("next_sibling", d_next_sibling), ("first_child", d_first_child), ("subtree_size", d_subtree),
    ("rank1", d_rank1), ("rank0", d_rank0),
]


def strings(tier):
    out = []
    maxl = 8 if tier == "thorough" else 6
    for L in range(0, maxl + 1):
        for v in range(1 << L):
            out.append([(v >> i) & 1 for i in range(L)])
    return out


def boundary_strings(tier):
    out = []
    def nest(n):
        return [1] * n + [0] * n
    def flat(n):
        return [1, 0] * n
    for n in (31, 32, 33, 63, 64, 65, 96, 255, 256, 257, 1023, 1024, 1025):
        out.append(nest(n))
    for n in (32, 33, 64, 130, 1025):
        out.append(flat(n))
    # mixed: deep prefix, flat middle, unmatched tail; unbalanced variants
    out.append([1] * 70 + flat(40) + [0] * 60)
    out.append([0] * 5 + nest(40) + [1] * 3)
    out.append([1] + flat(500) + nest(100) + [0])
    out.append(nest(100)[:-3])
    if tier == "thorough":
        out.append(nest(33000))
        out.append([1] + flat(33000) + [0])
    return out


def rule_bp(progs, tier, name="BPTAB", only=None):
    """only: restrict to the named constructors (and, in the quick tier, to the boundary and
    L2-scale strings) when the rule is reused for a structure that sits on one constructor."""
    out = []
    for cfg, P in progs.items():
        res = RuleResult(name, cfg)
        out.append(res)
        I = Interp(P, max_steps=60000000, max_depth=60)
        I.features = {"sse4.1": True, "avx2": True, "bmi2": True}
        ctors = [
            ("new", "trees::bp::BalancedParens::new", lambda w, n: [list(w), n], False),
            ("from_words(borrowed)", "trees::bp::BalancedParens::<W>::from_words", lambda w, n: [Slice(list(w), 0, len(w), 8), n], False),
            ("new_with_cspoppy", "trees::bp::BalancedParens::<std::vec::Vec<u64>, trees::bp::WithCsPoppy>::new_with_cspoppy", lambda w, n: [list(w), n], True),
        ]
        for rate in (1, 3, 100, 256):
            ctors.append(("assemble_with_rate(%d)" % rate, "trees::bp::BalancedParens::<W, trees::bp::WithCsPoppy>::assemble_with_rate", (lambda w, n, r=rate: [list(w), n, r]), True))
        small = strings(tier)
        big = boundary_strings(tier)
        l2 = l2_strings(tier)
        flip = [0]

        def run_case(cname, fid, mk, has_select, bits, stray, full, marks=None):
            flip[0] ^= 1
            I.overrides["util::simd::x86::has_fast_bmi2"] = lambda a, f=flip[0]: f
            I.overrides["bits::scan::has_avx2"] = lambda a, f=flip[0]: f
            I.statics.clear()
            words = to_words(bits, stray)
            bp = I.call(fid, mk(words, len(bits)))
            r = tmp_ref(bp)
            L = len(bits)
            n = 0
            spec = Spec(bits) if marks is not None else None
            if full:
                ps = list(range(0, L + 2))
            elif marks is not None:
                ps = marks
            else:
                ps = sorted({p for p in (0, 1, 2, 31, 32, 62, 63, 64, 65, 127, 128, 511, 512, 513, 2047, 2048, 2049, L // 2 - 1, L // 2, L // 2 + 1, L - 2, L - 1, L, L + 1) if 0 <= p <= L + 1})
            for opn, d in OPS:
                pp = ps
                if marks is not None and opn in ("find_open", "enclose", "parent"):
                    # backward scans are linear in the real code: a thinner position set on the large strings
                    pp = ps[:: (8 if opn == "find_open" else 4) if tier != "thorough" else (9 if opn == "find_open" else 5)]
                for p in pp:
                    got = opt(I.call(T + opn, [r, p]))
                    exp = getattr(spec, opn)(p) if spec is not None else d(bits, p)
                    n += 1
                    if got != exp:
                        return n, (cname, opn, p, got, exp, L, stray)
            tot1 = sum(bits)
            for opn, exp in (("total_ones", tot1), ("total_zeros", L - tot1), ("len", L)):
                got = I.call(T + opn, [r])
                n += 1
                if got != exp:
                    return n, (cname, opn, "-", got, exp, L, stray)
            ks1 = range(0, tot1 + 2) if full else sorted({k for k in (0, 1, 63, 64, 255, 256, 257, tot1 // 2, tot1 - 1, tot1, tot1 + 1) if 0 <= k <= tot1 + 1})
            ks0 = range(0, L - tot1 + 2) if full else sorted({k for k in (0, 1, 63, 64, (L - tot1) // 2, L - tot1 - 1, L - tot1, L - tot1 + 1) if 0 <= k <= L - tot1 + 1})
            for k in ks0:
                got = opt(I.call(T + "select0", [r, k]))
                n += 1
                exp = spec.select(k, 0) if spec is not None else d_select(bits, k, 0)
                if got != exp:
                    return n, (cname, "select0", k, got, exp, L, stray)
            if has_select:
                for k in ks1:
                    got = opt(I.call(T + "select1", [r, k]))
                    n += 1
                    exp = spec.select(k, 1) if spec is not None else d_select(bits, k, 1)
                    if got != exp:
                        return n, (cname, "select1", k, got, exp, L, stray)
            return n, None

        if only:
            ctors = [c for c in ctors if c[0] in only]
            if tier != "thorough":
                small = small[:63:4]
        for cname, fid, mk, has_select in ctors:
            if not (P.fns.get(fid) or P.find(fid)):
                res.bad("%s:%s" % (name, cname), "constructor %s not found (anchor missing)" % fid)
                continue
            total = 0
            bad = None
            try:
                fam = small if tier == "thorough" else (small[:63] + small[63::3] if cname in ("new", "new_with_cspoppy") else small[:: 7])
                for bits in fam:
                    for stray in ((0, M64) if len(bits) % 64 and cname != "from_words(borrowed)x" else (0,)):
                        n, b_ = run_case(cname, fid, mk, has_select, bits, stray, True)
                        total += n
                        if b_ and bad is None:
                            bad = b_
                    if bad:
                        break
                if bad is None:
                    for bits in (big if cname in ("new", "new_with_cspoppy", "assemble_with_rate(3)") or tier == "thorough" else big[:6]):
                        n, b_ = run_case(cname, fid, mk, has_select, bits, M64 if len(bits) % 64 else 0, False)
                        total += n
                        if b_:
                            bad = b_
                            break
                if bad is None and (cname == "new" or (tier == "thorough" and cname in ("new_with_cspoppy", "assemble_with_rate(256)", "from_words(borrowed)"))):
                    for bits, marks in l2:
                        n, b_ = run_case(cname, fid, mk, has_select, bits, M64 if len(bits) % 64 else 0, False, marks)
                        total += n
                        if b_:
                            bad = b_
                            break
            except Panic as e:
                res.bad("%s:%s" % (name, cname), "structure built by %s panics: %s" % (cname, e))
                continue
            except (Unsupported, KeyError) as e:
                res.bad("%s:%s" % (name, cname), "cannot evaluate %s: %s" % (cname, e))
                continue
            # surplus words: the storage is longer than ceil(len/64) words; bits in the surplus words are past `len`
            if bad is None and cname != "from_words(borrowed)x":
                try:
                    bits = [1, 1, 0, 1, 0, 0, 1, 1, 0, 0]
                    words = to_words(bits, M64) + [M64]
                    I.statics.clear()
                    bp = I.call(fid, mk(words, len(bits)))
                    r = tmp_ref(bp)
                    tot = I.call(T + "total_ones", [r])
                    total += 1
                    if tot != sum(bits):
                        res.bad("%s:%s:surplus-words" % (name, cname), "BalancedParens built by %s over a 10-bit sequence stored in 2 words (a whole surplus word of stray 1-bits): total_ones() = %r, the first `len` bits hold %d" % (cname, tot, sum(bits)))
                    else:
                        for opn, d in OPS:
                            for p in range(0, len(bits) + 2):
                                got = opt(I.call(T + opn, [r, p]))
                                total += 1
                                if got != d(bits, p) and bad is None:
                                    bad = (cname + " with a surplus word", opn, p, got, d(bits, p), len(bits), M64)
                except Panic as e:
                    res.bad("%s:%s:surplus-words" % (name, cname), "BalancedParens built by %s with a surplus storage word panics: %s" % (cname, e))
                except (Unsupported, KeyError) as e:
                    res.bad("%s:%s:surplus-words:evaluate" % (name, cname), "cannot evaluate: %s" % e)
            res.cells += total
            res.engines += 1
            if bad:
                cn, opn, p, got, exp, L, stray = bad
                res.bad("%s:%s:%s" % (name, cname, opn), "%s built by %s over a %d-bit sequence%s: %s(%s) = %r, the excess-scan definition gives %r" % ("BalancedParens", cn, L, " with stray bits past len" if stray else "", opn, p, got, exp))
            else:
                res.ok({"constructor": cname, "queries": total})
        res.require_floor(len(only) if only else 7, "constructor variants")
    return out
