"""TABLE — compiler-evaluated constant tables equal their one-line mathematical definition,
and small table-backed kernels equal their definition on their complete finite domain."""
from .harness import RuleResult
from .minimir import Interp, Panic, Slice, Unsupported


def _bytes_of(c):
    if "bytes" not in c:
        return None
    raw = bytes.fromhex(c["bytes"])
    esz = c.get("esz", 1)
    return [int.from_bytes(raw[i:i + esz], "little") for i in range(0, len(raw), esz)]


def s8(x):
    return x - 256 if x & 0x80 else x


def spec_select_in_byte():
    t = []
    for b in range(256):
        pos = [i for i in range(8) if (b >> i) & 1]
        for k in range(8):
            t.append(pos[k] if k < len(pos) else 8)
    return t


def spec_min_excess():
    t = []
    for b in range(256):
        e, m = 0, 0
        for i in range(8):
            e += 1 if (b >> i) & 1 else -1
            m = min(m, e)
        t.append(m & 0xFF)
    return t


def spec_max_excess_rev():
    t = []
    for b in range(256):
        e, m = 0, 0
        for i in range(7, -1, -1):
            e += 1 if (b >> i) & 1 else -1
            m = max(m, e)
        t.append(m & 0xFF)
    return t


def spec_total_excess():
    return [(2 * bin(b).count("1") - 8) & 0xFF for b in range(256)]


def spec_find_close():
    t = []
    for b in range(256):
        for init in range(16):
            e = init + 1
            r = 8
            for i in range(8):
                e += 1 if (b >> i) & 1 else -1
                if e == 0:
                    r = i
                    break
            t.append(r)
    return t


TABLES = [
    ("util::table::SELECT_IN_BYTE_TABLE", spec_select_in_byte, "position of the k-th set bit of b, 8 if none (index b*8+k)"),
    ("trees::bp::BYTE_MIN_EXCESS", spec_min_excess, "min prefix excess over bits 0..7 (i8)"),
    ("trees::bp::BYTE_MAX_EXCESS_REV", spec_max_excess_rev, "max running excess scanning bits 7..0 (i8)"),
    ("trees::bp::BYTE_TOTAL_EXCESS", spec_total_excess, "2*popcount(b)-8 (i8)"),
    ("trees::bp::BYTE_FIND_CLOSE", spec_find_close, "first bit where excess starting at init+1 reaches 0, else 8 (index b*16+init)"),
]


def rule_tables(progs, tier, which=None):
    out = []
    for cfg, P in progs.items():
        res = RuleResult("TABLE", cfg)
        out.append(res)
        for cid, spec, what in TABLES:
            if which and not any(w in cid for w in which):
                continue
            c = P.consts.get(cid)
            if c is None:
                res.bad("TABLE:%s" % cid, "table %s not found in the compiled crate (anchor missing: fail closed)" % cid)
                continue
            got = _bytes_of(c)
            if got is None:
                res.bad("TABLE:%s" % cid, "table %s has no compiler-evaluated bytes" % cid)
                continue
            exp = spec()
            res.cells += len(exp)
            res.engines += 1
            if len(got) != len(exp):
                res.bad("TABLE:%s" % cid, "table %s has %d entries, definition has %d" % (cid, len(got), len(exp)), "%s:%d" % (c["file"], c["line"]))
                continue
            diffs = [i for i in range(len(exp)) if got[i] != exp[i]]
            if diffs:
                i = diffs[0]
                res.bad(
                    "TABLE:%s" % cid,
                    "table %s differs from its definition (%s) at %d entries; first: index %d holds %d, definition gives %d" % (cid, what, len(diffs), i, got[i], exp[i]),
                    "%s:%d" % (c["file"], c["line"]),
                )
            else:
                res.ok({"table": cid, "entries": len(exp), "definition": what})
    return out


def rule_select_in_byte(progs, tier):
    """util::table::select_in_byte(byte, k) equals its definition for every byte and k in 0..=9
    (k>=8 exercises the guard that keeps the table index in bounds)."""
    out = []
    for cfg, P in progs.items():
        res = RuleResult("TABLE(select_in_byte)", cfg)
        out.append(res)
        I = Interp(P)
        bad = None
        n = 0
        try:
            for b in range(256):
                pos = [i for i in range(8) if (b >> i) & 1]
                for k in list(range(10)) + [63, 64, 255, 2**32 - 1]:
                    exp = pos[k] if k < len(pos) else 8
                    got = I.call("util::table::select_in_byte", [b, k])
                    n += 1
                    if got != exp and bad is None:
                        bad = (b, k, got, exp)
        except Panic as e:
            res.bad("TABLE:select_in_byte", "select_in_byte can panic / index out of bounds: %s (byte %d, k %d)" % (e, b, k))
            continue
        except (Unsupported, KeyError) as e:
            res.bad("TABLE:select_in_byte", "cannot evaluate select_in_byte: %s" % e)
            continue
        res.cells += n
        res.engines += 1
        if bad:
            res.bad("TABLE:select_in_byte", "select_in_byte(%d,%d) = %d, definition gives %d" % bad)
        else:
            res.ok({"fn": "util::table::select_in_byte", "cells": n})
    return out


def rule_block_popcount_lanes(progs, tier):
    """bits::scan::block_popcount_avx2: the nibble-LUT lane function equals popcount for every
    byte value at every one of the 64 byte positions of the 8-word block (all other bytes zero),
    and the all-ones block does not overflow the u8 accumulators (512)."""
    out = []
    for cfg, P in progs.items():
        res = RuleResult("TABLE(block_popcount_avx2 lanes)", cfg)
        out.append(res)
        I = Interp(P)
        fn = "bits::scan::block_popcount_avx2"
        if not P.find(fn):
            res.bad("TABLE:block_popcount_avx2", "kernel %s not found (anchor missing)" % fn)
            continue
        bad = None
        n = 0
        try:
            vals = range(256) if tier == "thorough" else list(range(0, 256, 1))
            positions = range(64) if tier == "thorough" else [0, 1, 7, 8, 15, 16, 31, 32, 33, 47, 48, 62, 63]
            for pos in positions:
                for c in vals:
                    words = [0] * 8
                    words[pos // 8] = c << (8 * (pos % 8))
                    got = I.call(fn, [Slice(words, 0, 8, 8)])
                    n += 1
                    if got != bin(c).count("1") and bad is None:
                        bad = (pos, c, got, bin(c).count("1"))
            for fill, exp in ((2**64 - 1, 512), (0, 0), (0xAAAAAAAAAAAAAAAA, 256), (0x0F0F0F0F0F0F0F0F, 256)):
                got = I.call(fn, [Slice([fill] * 8, 0, 8, 8)])
                n += 1
                if got != exp and bad is None:
                    bad = ("all", fill, got, exp)
            # extent: the kernel must read exactly the 8 words it is given
            try:
                I.call(fn, [Slice([0] * 8, 0, 8, 8)])
            except Panic as e:
                bad = bad or ("extent", 0, str(e), "no out-of-bounds read on an 8-word block")
        except Panic as e:
            res.bad("TABLE:block_popcount_avx2", "kernel reads outside its 8-word block or panics: %s" % e)
            continue
        except (Unsupported, KeyError) as e:
            res.bad("TABLE:block_popcount_avx2", "cannot evaluate kernel: %s" % e)
            continue
        res.cells += n
        res.engines += 1
        if bad:
            res.bad("TABLE:block_popcount_avx2", "block_popcount_avx2 with byte position %s value %s gives %s, definition gives %s" % bad)
        else:
            res.ok({"fn": fn, "cells": n, "what": "per-byte lane function == popcount at each byte position; saturation blocks"})
    return out


def rule_popcount_portable_units(progs, tier):
    """bits::popcount::popcount_word_portable on unit-byte words (one byte = c, rest zero) and
    on a handful of saturating words: necessary condition for the SWAR constants (M1/M2/M4/H01)."""
    out = []
    for cfg, P in progs.items():
        res = RuleResult("TABLE(popcount_word_portable units)", cfg)
        out.append(res)
        I = Interp(P)
        fn = "bits::popcount::popcount_word_portable"
        if not P.find(fn):
            res.note("%s not compiled in this configuration" % fn)
            res.ok({"fn": fn, "present": False})
            continue
        bad = None
        n = 0
        try:
            for pos in range(8):
                for c in range(256):
                    w = c << (8 * pos)
                    got = I.call(fn, [w])
                    n += 1
                    if got != bin(w).count("1") and bad is None:
                        bad = (w, got, bin(w).count("1"))
            for w in (2**64 - 1, 0, 0xAAAAAAAAAAAAAAAA, 0x5555555555555555, 0x8000000000000001, 0x0123456789ABCDEF):
                got = I.call(fn, [w])
                n += 1
                if got != bin(w).count("1") and bad is None:
                    bad = (w, got, bin(w).count("1"))
        except (Unsupported, Panic, KeyError) as e:
            res.bad("TABLE:popcount_word_portable", "cannot evaluate: %s" % e)
            continue
        res.cells += n
        res.engines += 1
        if bad:
            res.bad("TABLE:popcount_word_portable", "popcount_word_portable(0x%x) = %s, definition gives %s" % bad)
        else:
            res.ok({"fn": fn, "cells": n})
    return out
