"""Generator of the YAML presentation space used by C14 / C18 (/ C26): finite trees of
mappings, sequences and string / int / bool / null leaves, written out with a presentation
choice made independently at every node — block or flow collections (compact and indentless
forms included), plain / single-quoted / double-quoted / literal / folded scalars, comments, blank
lines, anchors with aliases, explicit keys, document markers, several documents per stream, and
LF / CRLF / CR line breaks.  Deterministic: document i of seed s is always the same text.

The renderer is part of the specification, so it is deliberately conservative (a scalar is
written plain only when it is unambiguously a plain scalar of the intended type in YAML 1.2 core
schema) and every generated stream is cross-checked, when PyYAML is importable, with
`yaml.BaseLoader` (structure, key order, string content; BaseLoader does not resolve types, so
YAML 1.1 / 1.2 differences do not matter): a stream on which the renderer and PyYAML disagree is
dropped from the family and counted, never blamed on /repo."""
import re


class Rng:
    def __init__(self, seed):
        self.x = (seed * 2654435761 + 12345) & 0xFFFFFFFF

    def next(self):
        self.x = (self.x * 1103515245 + 12345) & 0x7FFFFFFF
        return self.x >> 8

    def below(self, n):
        return self.next() % n

    def pick(self, xs):
        return xs[self.below(len(xs))]

    def chance(self, num, den):
        return self.below(den) < num


RESERVED = {"true", "false", "null", "~", "yes", "no", "on", "off", "y", "n", ".nan", ".inf", "-.inf", "+.inf", "nan", "inf", ""}

STRINGS = [
    "plain", "two words", "Title Case Words", "x", "a1", "snake_case", "path/to/file.txt", "semi;colon", "dotted.name",
    "", " lead", "trail ", "  both  ", "true", "false", "null", "~", "yes", "No", "123", "-7", "1.5", "0x1F", "0o17", "1e3", ".5", "+1",
    "- dash", "-dash", "a: b", "a:b", "key:", ": x", "#hash", "a #b", "a#b", "é", "日本語", "naïve café", "emoji 😀",
    "multi\nline", "two\n\nparas", "ends with newline\n", "line one\nline two\n", "tab\there", "quote\"s", "it's", "back\\slash",
    "*star", "&amp", "!bang", "%pct", "@at", "`tick", "[br", "{br", "]", "}", ",", "a, b", "?", "? q", "|", ">", "| pipe", "> gt",
    'say "hi" there', "see [1] for", "x {y} z", "x > y", "b | c", "x &y *z", "what? *star", "a - b", "a ? b", "50%", "a@b", "--- doc", "... end", "---", "...",
    "\x01ctl", "nul\x00", "bell\x07", "nbsp x", "ls x", "del\x7f", "\ttab lead", "cr\rmid",
    "long " + "word " * 30 + "end", "<<", "=", "!!str", "&", "*", "- ", "k: v: w",
]
INTS = [0, 1, 7, -12, 1000000, 42, -1, 9007199254740993]


def is_plain_safe(s, in_flow):
    """Conservative: True only if `s` written bare is a plain scalar that loads as the string `s`."""
    if s.lower() in RESERVED:
        return False
    if not re.fullmatch(r"[A-Za-z_/.¡-￿][A-Za-z0-9_./;¡-￿-]*( [A-Za-z0-9_./;¡-￿-]+)*", s):
        return False
    if re.fullmatch(r"[-+]?(\.[0-9]+|[0-9]+(\.[0-9]*)?)([eE][-+]?[0-9]+)?", s) or re.fullmatch(r"0[xo][0-9a-fA-F]+", s):
        return False
    if s.startswith((".", "-", "/")) and len(s) > 1 and (s[1:2].isdigit() or s.lower() in RESERVED):
        return False
    if " " in s or " " in s or " " in s or "﻿" in s:
        return False
    return True


BLOCK_PLAIN_EXTRA = {'say "hi" there', "see [1] for", "x {y} z", "x > y", "b | c", "what? *star", "a - b", "a ? b", "50%", "a@b", "a#b", "a:b", "x &y z"}


def dq(s):
    out = ['"']
    for ch in s:
        o = ord(ch)
        if ch == '"':
            out.append('\\"')
        elif ch == "\\":
            out.append("\\\\")
        elif ch == "\n":
            out.append("\\n")
        elif ch == "\t":
            out.append("\\t")
        elif ch == "\r":
            out.append("\\r")
        elif o == 0:
            out.append("\\0")
        elif o == 7:
            out.append("\\a")
        elif o < 0x20 or o == 0x7F:
            out.append("\\x%02x" % o)
        elif o == 0xA0:
            out.append("\\_")
        elif o == 0x2028:
            out.append("\\L")
        elif o == 0x2029:
            out.append("\\P")
        elif o > 0xFFFF and len(out) % 2:
            out.append("\\U%08x" % o)
        elif 0xA1 <= o <= 0xFFFF and len(out) % 3 == 0:
            out.append("\\u%04x" % o)
        else:
            out.append(ch)
    out.append('"')
    return "".join(out)


def sq_ok(s):
    return all(ch >= " " and ch not in "\x7f  ﻿" for ch in s)


def sq(s):
    return "'" + s.replace("'", "''") + "'"


def literal_ok(s):
    if not s or s.startswith((" ", "\n", "\t")):
        return False
    body = s[:-1] if s.endswith("\n") else s
    if body.endswith("\n") or not body:
        return False
    for line in body.split("\n"):
        if line != line.rstrip(" \t") or any((ch < " " and ch != "\t") or ch in "\x7f  ﻿" for ch in line):
            return False
        if line.startswith((" ", "\t")):
            return False
    return True


def folded_ok(s):
    return bool(re.fullmatch(r"[A-Za-z0-9_.;/-]+( [A-Za-z0-9_.;/-]+){2,}", s))


class Leaf:
    """A scalar with its value, the JSON value expected after loading, and its source spelling when plain."""

    def __init__(self, value):
        self.value = value


class Gen:
    def __init__(self, seed, max_depth=3):
        self.r = Rng(seed)
        self.max_depth = max_depth
        self.anchors = []  # (name, python value) defined so far in this document
        self.n_anchor = 0
        self.used_block_scalar = False

    # ---------------------------------------------------------------- trees
    def leaf(self):
        k = self.r.below(10)
        if k < 6:
            return self.r.pick(STRINGS)
        if k == 6:
            return self.r.pick(INTS)
        if k == 7:
            return self.r.pick([True, False])
        if k == 8:
            return None
        return self.r.pick(STRINGS[:12])

    def tree(self, depth=0):
        if depth >= self.max_depth or self.r.chance(2, 5):
            return self.leaf()
        n = self.r.pick([0, 1, 1, 2, 2, 3, 4])
        if self.r.chance(1, 2):
            keys = []
            while len(keys) < n:
                k = self.r.pick(STRINGS + ["k%d" % self.r.below(9), "key"])
                if k not in keys and "\n" not in k and len(k) < 40 and k != "<<":
                    keys.append(k)
            return {k: self.tree(depth + 1) for k in keys}
        return [self.tree(depth + 1) for _ in range(n)]

    # ---------------------------------------------------------------- scalars
    def scalar(self, v, in_flow, as_key=False):
        """-> (text, extra_lines or None); extra_lines (block scalar body) are relative to the parent's indent."""
        r = self.r
        if v is None:
            return r.pick(["null", "~", "null"]), None
        if v is True or v is False:
            return ("true" if v else "false"), None
        if isinstance(v, int):
            return str(v), None
        s = v
        choices = []
        if is_plain_safe(s, in_flow) or (not in_flow and not as_key and s in BLOCK_PLAIN_EXTRA):
            choices += ["plain", "plain", "plain"]
        if sq_ok(s) and "\n" not in s:
            choices.append("single")
        choices.append("double")
        if not in_flow and not as_key and literal_ok(s):
            choices += ["literal", "literal"]
        if not in_flow and not as_key and folded_ok(s):
            choices += ["folded", "folded"]
        c = r.pick(choices)
        if c == "plain":
            return s, None
        if c == "single":
            return sq(s), None
        if c == "double":
            return dq(s), None
        self.used_block_scalar = True
        if c == "literal":
            if s.endswith("\n"):
                return "|", s[:-1].split("\n")
            return "|-", s.split("\n")
        words = s.split(" ")
        cut = 1 + r.below(len(words) - 1)
        return ">-", [" ".join(words[:cut]), " ".join(words[cut:])]

    def key_text(self, k):
        t, _ = self.scalar(k, False, as_key=True)
        return t

    # ---------------------------------------------------------------- nodes
    def comment(self, trailing=False):
        """`trailing`: the comment follows a scalar on the same line.  Those never contain `: `
        here: a `: ` inside a trailing comment after a plain scalar is a separately named document
        of YAMLLOAD (a known defect of the loader), kept out of the random family so that one
        root cause does not surface under hundreds of stream keys."""
        if trailing:
            return self.r.pick(["# c", "# a comment with [stuff] {here} 'x'", "#", "# - not an item", "#key"])
        return self.r.pick(["# c", "# a comment: with [stuff] {here} 'x'", "#", "# - not an item", "#key: value"])

    def flow(self, v):
        """single-line flow text"""
        r = self.r
        if isinstance(v, dict):
            if not v:
                return "{}"
            sp = r.pick(["", " "])
            items = []
            for k, x in v.items():
                kt, _ = self.scalar(k, True, as_key=True)
                items.append("%s: %s" % (kt, self.flow(x)))
            return "{" + sp + ", ".join(items) + sp + "}"
        if isinstance(v, list):
            if not v:
                return "[]"
            sp = r.pick(["", " "])
            return "[" + sp + r.pick([", ", ",", " , "]).join(self.flow(x) for x in v) + sp + "]"
        t, _ = self.scalar(v, True)
        return t

    def flow_multiline(self, v, ind):
        r = self.r
        pad = " " * (ind + 2)
        if isinstance(v, list) and v:
            return "[", [pad + self.flow(x) + ("," if i + 1 < len(v) or r.chance(1, 4) else "") for i, x in enumerate(v)] + [" " * ind + "]"]
        if isinstance(v, dict) and v:
            lines = []
            items = list(v.items())
            for i, (k, x) in enumerate(items):
                kt, _ = self.scalar(k, True, as_key=True)
                lines.append(pad + "%s: %s" % (kt, self.flow(x)) + ("," if i + 1 < len(items) else ""))
            return "{", lines + [" " * ind + "}"]
        return self.flow(v), []

    def maybe_anchor(self, v):
        """Returns a property prefix ('&aN ' or '') and records the anchor."""
        if self.r.chance(1, 9) and len(self.anchors) < 4:
            self.n_anchor += 1
            name = "a%d" % self.n_anchor
            self.anchors.append((name, v))
            return "&%s " % name
        return ""

    def value_after(self, v, ind, allow_same_line_block=False):
        """Render `v` as the value of a `key:` / `-` at indentation `ind`.
        -> (text on the indicator's line ('' = nothing), following lines)."""
        r = self.r
        # alias to an earlier anchor with the same value
        if isinstance(v, (dict, list)):
            prop = self.maybe_anchor(v)
            if not v or r.chance(1, 4):
                if v and r.chance(1, 3):
                    first, rest = self.flow_multiline(v, ind)
                    return prop + first, rest
                return prop + self.flow(v), []
            if isinstance(v, dict):
                lines = self.block_map(v, ind + 2)
                return prop.strip(), lines
            inner = ind + (0 if (allow_same_line_block and r.chance(1, 2)) else 2)
            return prop.strip(), self.block_seq(v, inner)
        prop = self.maybe_anchor(v)
        t, body = self.scalar(v, False)
        if body is None:
            if r.chance(1, 8) and not t.startswith(("|", ">")):
                t += " " + self.comment(trailing=True)
            return prop + t, []
        pad = " " * (ind + 2)
        return prop + t, [(pad + b) if b else "" for b in body]

    def block_map(self, m, ind):
        r = self.r
        pad = " " * ind
        lines = []
        for k, v in m.items():
            if r.chance(1, 10):
                lines.append(pad + self.comment() if r.chance(1, 2) else self.comment())
            if r.chance(1, 14):
                lines.append("")
            alias = self.alias_for(v)
            kt = self.key_text(k)
            if r.chance(1, 12) and alias is None:
                first, rest = self.value_after(v, ind, allow_same_line_block=False)
                lines.append(pad + "? " + kt)
                lines.append(pad + ":" + (" " + first if first else ""))
                lines += rest
                continue
            if alias is not None:
                lines.append(pad + kt + ": *" + alias)
                continue
            first, rest = self.value_after(v, ind, allow_same_line_block=True)
            lines.append(pad + kt + ":" + (" " + first if first else ""))
            lines += rest
        return lines

    def alias_for(self, v):
        if self.anchors and self.r.chance(1, 3):
            for name, av in self.anchors:
                if av == v and type(av) is type(v):
                    return name
        return None

    def block_seq(self, xs, ind):
        r = self.r
        pad = " " * ind
        lines = []
        for v in xs:
            if r.chance(1, 12):
                lines.append(pad + self.comment())
            alias = self.alias_for(v)
            if alias is not None:
                lines.append(pad + "- *" + alias)
                continue
            if isinstance(v, dict) and v and r.chance(2, 3):
                # compact mapping in a sequence entry: `- k: v` then siblings at ind+2
                sub = self.block_map(v, ind + 2)
                j = 0
                while j < len(sub) and (not sub[j].strip() or sub[j].lstrip().startswith("#")):
                    j += 1
                if j == 0 and not sub[0].lstrip().startswith("? "):
                    lines.append(pad + "- " + sub[0][ind + 2:])
                    lines += sub[1:]
                    continue
            if isinstance(v, list) and v and r.chance(1, 2):
                sub = self.block_seq(v, ind + 2)
                if sub and sub[0].startswith(" " * (ind + 2) + "- "):
                    lines.append(pad + "- " + sub[0][ind + 2:])
                    lines += sub[1:]
                    continue
            first, rest = self.value_after(v, ind)
            lines.append(pad + "-" + (" " + first if first else ""))
            lines += rest
        return lines

    def document(self, v):
        """lines of one document body (no markers)"""
        self.anchors = []
        r = self.r
        if isinstance(v, dict) and v and not r.chance(1, 5):
            return self.block_map(v, 0)
        if isinstance(v, list) and v and not r.chance(1, 5):
            return self.block_seq(v, 0)
        if isinstance(v, (dict, list)):
            return [self.flow(v)]
        t, body = self.scalar(v, False)
        if body is None:
            return [t]
        return [t] + [("  " + b) if b else "" for b in body]


def expand(v):
    return v


def make_stream(seed, max_depth=3):
    """-> (text, [python values per document], notes)"""
    g = Gen(seed, max_depth)
    r = g.r
    ndocs = r.pick([1, 1, 1, 1, 2, 3])
    docs = []
    lines = []
    for i in range(ndocs):
        v = g.tree(0)
        if ndocs > 1 and v is None:
            v = "x"
        body = g.document(v)
        start_marker = i > 0 or r.chance(1, 3)
        if start_marker:
            if len(body) == 1 and not isinstance(v, (dict, list)) and r.chance(1, 2) and not body[0].startswith(("|", ">")):
                lines.append("--- " + body[0])
                body = []
            else:
                lines.append("---" + (" " + g.comment() if r.chance(1, 6) else ""))
        elif body and body[0].startswith(("---", "...")):
            lines.append("---")
        lines += body
        if r.chance(1, 5) and i + 1 < ndocs:
            lines.append("...")
        docs.append(v)
    if r.chance(1, 6):
        lines.append("...")
    if r.chance(1, 8):
        lines.insert(0, g.comment())
    text = "\n".join(lines) + ("\n" if not r.chance(1, 7) or g.used_block_scalar else "")
    return text, docs


def strings_only(v):
    """The tree PyYAML's BaseLoader would produce: every scalar as its string content."""
    if isinstance(v, dict):
        return {strings_only(k): strings_only(x) for k, x in v.items()}
    if isinstance(v, list):
        return [strings_only(x) for x in v]
    if v is None:
        return None  # spelled null or ~ : compare loosely
    if v is True:
        return "true"
    if v is False:
        return "false"
    return str(v)


def base_equal(got, exp):
    if exp is None:
        return got in ("null", "~", "")
    if isinstance(exp, dict):
        return isinstance(got, dict) and list(got.keys()) == list(exp.keys()) and all(base_equal(got[k], exp[k]) for k in exp)
    if isinstance(exp, list):
        return isinstance(got, list) and len(got) == len(exp) and all(base_equal(a, b) for a, b in zip(got, exp))
    return got == exp


def streams(n, seed0=1, max_depth=3, want_selfcheck=True):
    """-> list of (seed, text, docs), and the number dropped by the PyYAML cross-check."""
    try:
        import yaml  # noqa
    except Exception:
        yaml = None
    out = []
    dropped = 0
    seed = seed0
    while len(out) < n and seed < seed0 + 20 * n:
        text, docs = make_stream(seed, max_depth)
        seed += 1
        ok = True
        if yaml is not None and want_selfcheck:
            try:
                got = list(yaml.load_all(text, Loader=yaml.BaseLoader))
                exp = [strings_only(d) for d in docs]
                if len(got) != len(exp) or not all(base_equal(g_, e_) for g_, e_ in zip(got, exp)):
                    ok = False
            except Exception:
                ok = False
        if ok:
            out.append((seed - 1, text, docs))
        else:
            dropped += 1
    return out, dropped


if __name__ == "__main__":
    import sys

    ss, dropped = streams(int(sys.argv[1]) if len(sys.argv) > 1 else 20)
    print("dropped", dropped)
    for seed, text, docs in ss[:12]:
        print("=== seed", seed, docs)
        print(text)
