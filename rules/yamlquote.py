"""WRITERREADER(b) — YAML plain-vs-quoted deciders vs the loader's plain-scalar resolver (C15).

Every function from whose result a YAML emitter chooses between writing a string raw and
calling a quoting writer is evaluated from MIR on a string family; whenever it lets a string
through plain, the loader's `yaml::scalar::resolve_plain` (also evaluated from MIR) must resolve
that text to a *string*, and the text must be lexically a plain scalar that reads back to itself
(no leading/trailing space, no leading indicator, no `: ` / ` #`, no line break or tab, not
empty).  Family: every value spelling the resolver's arms recognise (null/bool in three casings,
`~`, `.inf`/`.nan` families with and without sign, `0x`/`0o` integers, decimal ints/floats in all
the spellings Rust's parsers accept) with prefix/suffix/case variants, every ASCII character as
first / last / only character, and the lexical hazards."""
from .harness import RuleResult
from .minimir import Adt, Interp, Panic, Slice, Unsupported
from .stdmodel import StrBuf

# (function, result kind, role). Keys are never type-resolved by the loader's JSON view (a key
# is a string there), so the key decider has lexical obligations only.  `jq::eval::yaml_quote_string`
# backs the `@yaml`/`toyaml` builtin (a string value, not the CLI's YAML printer) and is outside the
# property's program fragment; it is evaluated and reported in the evidence notes only.
DECIDERS = [
    ("bin::yq_runner::yaml_quote_string", "string", "value"),
    ("bin::yq_runner::yaml_quote_key", "string", "key"),
    ("jq::stream::needs_yaml_quoting", "bool", "value"),
    ("yaml::light::needs_yaml_quoting", "bool", "value"),
]


def family():
    vals = set()
    base = ["null", "Null", "NULL", "nULL", "~", "true", "True", "TRUE", "false", "False", "FALSE", "yes", "no", "on", "off",
            ".inf", ".Inf", ".INF", "+.inf", "-.inf", "+.INF", "-.Inf", ".nan", ".NaN", ".NAN", "-.nan", "+.nan",
            "0x2A", "0x2a", "0XFF", "0o17", "0O17", "0b101", "-0x2A", "+0x1", "0x", "0xZZ", "0o8", "0x7fffffffffffffff", "0x8000000000000000",
            "0", "1", "42", "-1", "+1", "007", "1_000", "1.5", "-1.5", "+1.5", ".5", "-.5", "+.5", "5.", "1e3", "1E3", "1e+3", "1e-3", "1e999", "1e-999", ".e3", "1.2.3",
            "9223372036854775807", "9223372036854775808", "-9223372036854775808", "inf", "Inf", "+inf", "-inf", "nan", "NaN", "infinity", "Infinity",
            "12:30:45", "2001-12-14", "1 2", "a", "abc", "hello world", "x: y", "x:y", "x :y", "a #b", "a#b", "#a", "a: ", "a:", "-", "- a", "-a", "?", "? a", "?a", ":", ": a", ":a",
            "[a]", "{a}", "a]", "a}", "a,b", ",a", "&a", "*a", "!a", "|a", ">a", "'a", "\"a", "%a", "@a", "`a", "a'b", "a\"b", "a\\b",
            " a", "a ", " ", "  ", "\ta", "a\t", "a\tb", "a\nb", "a\rb", "\n", "a\u0000b", "a\u001fb", "\u007f", "é", "日本", "a\u0085b", "a b", "﻿a", "---", "...", "--- a", "<<", "=", "a=b"]
    for b in base:
        vals.add(b)
        vals.add(b + "x")
        vals.add("x" + b)
        vals.add(b.upper())
        vals.add(b.lower())
    for c in range(0x20, 0x7F):
        ch = chr(c)
        vals |= {ch, ch + "a", "a" + ch, ch + " a", "a " + ch, "a" + ch + " b", "a " + ch + "b"}
    vals.add("")
    return sorted(vals)


INDICATORS_FIRST = set("-?:,[]{}#&*!|>'\"%@`")


def lexically_plain_safe(s, key=False):
    """Lexical hazards confirmed against this repository's loader: emitting the text plain as a
    block mapping value / key / sequence item does not read back as the same string."""
    if s == "":
        return "empty"
    if s[0] in " \t" or s[-1] in " \t":
        return "leading/trailing white space is not part of a plain scalar"
    if any(ch in s for ch in "\n\r"):
        return "line break"
    c0 = s[0]
    if c0 in "|>&*![{'\"#":
        return "leading indicator %r" % c0
    if key and c0 == "%":
        return "leading indicator '%' opens a directive at the start of a line"
    if c0 in "-?:" and (len(s) == 1 or s[1] in " \t"):
        return "leading %r followed by space" % c0
    if ": " in s or s.endswith(":"):
        return "`: ` inside / trailing `:` reads as a mapping key"
    if " #" in s:
        return "` #` starts a comment"
    return None


def rule_yaml_quoting(progs, tier, name="WRITERREADER(yaml-quote)"):
    out = []
    for cfg, P in progs.items():
        res = RuleResult(name, cfg)
        out.append(res)
        I = Interp(P, max_steps=400000)
        fam = family()
        for fid, kind, role in DECIDERS:
            if not (P.fns.get(fid) or P.find(fid)):
                res.bad("%s:%s" % (name, fid), "decider %s not found (anchor missing)" % fid)
                continue
            problems = {}
            n = 0
            plain = 0
            try:
                for s in fam:
                    b = list(s.encode("utf-8"))
                    r = I.call(fid, [Slice(b, 0, len(b))])
                    n += 1
                    if kind == "bool":
                        is_plain = not r
                    else:
                        outb = bytes(r.b) if isinstance(r, StrBuf) else None
                        is_plain = outb == s.encode("utf-8")
                    if not is_plain:
                        continue
                    plain += 1
                    rr = I.call("yaml::scalar::resolve_plain", [Slice(list(b), 0, len(b))])
                    if rr.vname != "Str" and role == "value":
                        problems.setdefault("%s:%s:type:%s" % (name, fid, rr.vname), "%s emits the string %r plain, but the loader resolves that plain scalar to %s (it reads back as a non-string)" % (fid, s, rr.vname))
                    why = lexically_plain_safe(s, key=(role == "key"))
                    if why:
                        cls = why.split(" ")[0].strip("`")
                        problems.setdefault("%s:%s:lexical:%s" % (name, fid, cls), "%s emits the string %r plain: %s, so it does not read back as the same string" % (fid, s, why))
            except Panic as e:
                res.bad("%s:%s:panic" % (name, fid), "decider panics on %r: %s" % (s, e))
                continue
            except (Unsupported, KeyError) as e:
                res.bad("%s:%s:evaluate" % (name, fid), "cannot evaluate %s / resolve_plain on %r: %s" % (fid, s, e))
                continue
            res.cells += n
            res.engines += 1
            for k, m in sorted(problems.items()):
                res.bad(k, m)
            if not problems:
                res.ok({"decider": fid, "strings": n, "let_through_plain": plain})
        res.require_floor(4, "deciders")
    return out
