"""DSVTAB — DSV index engines (scalar reference, word-at-a-time scalar, SSE2, AVX2, BMI2)
evaluated from MIR as whole builders over a finite structured family and compared bit for bit
(markers, newlines) with each other and with the quote-aware definition.

Family: configurations (delimiter, quote, newline) of distinct bytes including values >= 0x80;
(a) class sweep: every byte value at lanes 0/31/32/63 of a full 64-byte chunk and in the padded
tail; (b) quote-carry texts: quoted fields opening in one chunk and closing in the next,
doubled quotes, quotes at lanes 63/64, delimiters and newlines inside and outside quotes."""
from .harness import RuleResult
from .minimir import Adt, Interp, Opaque, Panic, Ref, Slice, Unsupported
from .stdmodel import tmp_ref

ENGINES = {
    "scalar(build_index)": "dsv::parser::build_index",
    "scalar-words(build_index_fast)": "dsv::parser::build_index_fast",
    "sse2": "dsv::simd::sse2::build_index_simd",
    "avx2": "dsv::simd::avx2::build_index_simd",
    "bmi2": "dsv::simd::bmi2::build_index_simd",
}
CONFIGS = [(0x2C, 0x22, 0x0A), (0x09, 0x22, 0x0A), (0xA7, 0x22, 0x0A), (0x14, 0xFE, 0x0A), (0x2C, 0x80, 0xFF), (0xFF, 0x27, 0x8A), (0x3B, 0x22, 0x0D)]


def spec(text, cfg):
    d, q, n = cfg
    inq = False
    m, nl = "", ""
    for b in text:
        if b == q:
            inq = not inq
        if not inq:
            m += "1" if b in (d, n) else "0"
            nl += "1" if b == n else "0"
        else:
            m += "0"
            nl += "0"
    return m, nl


def run_engine(P, fn, text, cfg):
    counter = [0]

    def with_capacity(I, args):
        counter[0] += 1
        return Opaque("bw%d" % counter[0])

    def finish(I, args):
        r = args[0]
        if isinstance(r, Ref):
            r = I.read_path(r.frame, r.local, r.path)
        return r

    roles = {}

    def lw_new(I, args):
        for role, a in zip(("markers", "newlines"), args[:2]):
            if isinstance(a, Opaque):
                roles[a.name] = role
        roles["len"] = args[2]
        return Opaque("lightweight")

    h = {
        "BitWriter::write_0": None, "BitWriter::write_1": None, "BitWriter::write_bit": None,
        "BitWriter::write_bits": None, "BitWriter::write_zeros": None,
        "BitWriter::with_capacity": with_capacity, "BitWriter::finish": finish,
        "DsvIndexLightweight::new": lw_new,
        "DsvIndex::new_lightweight": lambda I, a: Opaque("index"),
    }
    I = Interp(P, effect_fns=h, max_steps=2000000)
    I.features = {"avx2": True, "bmi2": True}
    a = P.adts["dsv::config::DsvConfig"]
    names = [f["name"] for f in a["variants"][0]["fields"]]
    vals = dict(zip(("delimiter", "quote_char", "newline"), cfg))
    conf = Adt("dsv::config::DsvConfig", 0, "DsvConfig", [vals[n] for n in names])
    I.call(fn, [Slice(list(text), 0, len(text)), tmp_ref(conf)])
    bits = {}
    for recv, meth, args in I.effects:
        if meth in ("with_capacity", "finish", "new", "new_lightweight"):
            continue
        s = bits.setdefault(recv, "")
        if meth == "write_0":
            s += "0"
        elif meth == "write_1":
            s += "1"
        elif meth == "write_bit":
            s += "1" if args[0] else "0"
        elif meth == "write_zeros":
            s += "0" * args[0]
        elif meth == "write_bits":
            w, n = args
            s += "".join("1" if (w >> i) & 1 else "0" for i in range(n))
        else:
            raise Unsupported("writer method %s" % meth)
        bits[recv] = s
    out = {}
    for nm, role in roles.items():
        if role in ("markers", "newlines"):
            out[role] = bits.get(nm, "")
    if set(out) != {"markers", "newlines"}:
        raise Unsupported("builder did not hand two writers to DsvIndexLightweight::new")
    if roles.get("len") != len(text):
        raise Unsupported("text length passed to the index is %r, not %d" % (roles.get("len"), len(text)))
    return out["markers"], out["newlines"]


def family(tier):
    texts = []
    F = 0x61
    for cfg in CONFIGS:
        d, q, n = cfg
        # (a) class sweep
        vals = range(256) if tier == "thorough" else sorted({d, q, n, d & 0x7F, q & 0x7F, n & 0x7F, d ^ 0x80, q ^ 0x80, (d + 1) & 0xFF, (q - 1) & 0xFF, 0x00, 0x0A, 0x0D, 0x22, 0x2C, 0x7F, 0x80, 0xFF})
        for c in vals:
            for p in ((0, 31, 32, 63, 66) if tier == "thorough" else (31, 32, 66)):
                t = [F] * 70
                t[p] = c
                texts.append((cfg, t))
        # (b) quote carry
        base = [F, d, q, F, d, F, n, F, q, d, F, n]  # a,"b,c\nd",e\n
        for pad in (0, 20, 50, 52, 53, 57, 60, 61, 62, 63, 64, 116, 125):
            texts.append((cfg, [F] * pad + base + [F] * 5))
            texts.append((cfg, [F] * pad + [q, q, d, q, n, q, q, q, F, n, d]))
        texts.append((cfg, [q] + [F] * 70 + [d, n] + [q, d, n]))
        texts.append((cfg, [d, n] * 40))
        texts.append((cfg, [q] * 65 + [d]))
        texts.append((cfg, [F]))
        texts.append((cfg, [n]))
    return texts


def rule_dsv(progs, tier, name="DSVTAB"):
    out = []
    for cfg_name, P in progs.items():
        res = RuleResult(name, cfg_name)
        out.append(res)
        fam = family(tier)
        for ename, fn in ENGINES.items():
            if not P.find(fn):
                res.bad("%s:%s" % (name, ename), "engine %s not found (anchor missing)" % fn)
                continue
            bad = None
            n = 0
            try:
                for cfg, text in fam:
                    got = run_engine(P, fn, text, cfg)
                    exp = spec(text, cfg)
                    n += 1
                    if got != exp and bad is None:
                        which = "markers" if got[0] != exp[0] else "newlines"
                        g, e = (got[0], exp[0]) if which == "markers" else (got[1], exp[1])
                        i = next((k for k in range(min(len(g), len(e))) if g[k] != e[k]), min(len(g), len(e)))
                        bad = (cfg, len(text), which, i, text[i] if i < len(text) else None, len(g), len(e))
            except Panic as e:
                res.bad("%s:%s" % (name, ename), "engine %s panics / reads out of bounds: %s (config %s, len %d)" % (ename, e, cfg, len(text)))
                continue
            except (Unsupported, KeyError) as e:
                res.bad("%s:%s" % (name, ename), "cannot evaluate engine %s: %s" % (ename, e))
                continue
            res.cells += n
            res.engines += 1
            if bad:
                cfg, ln, which, i, b, lg, le = bad
                res.bad("%s:%s" % (name, ename), "engine %s: %s bit %d (byte %s) differs from the quote-aware definition for delimiter=0x%02x quote=0x%02x newline=0x%02x on a %d-byte text (%d bits written, %d expected)" % (ename, which, i, ("0x%02x" % b) if b is not None else "-", cfg[0], cfg[1], cfg[2], ln, lg, le))
            else:
                res.ok({"engine": ename, "texts": n, "configs": len(CONFIGS)})
        res.require_floor(5, "engines")
    return out
