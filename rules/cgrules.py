"""Call-graph rules: REC (bounded input-driven recursion), PANICGUARD, ALIGN, ALLOC, DEPTHCAP."""
import re
from collections import defaultdict

from .core import op_place, op_int
from .dataflow import backward_slice, local_defs, reachable_from
from .harness import RuleResult

DEPTH_RE = re.compile(r"depth|nesting|frame_len|recursion|level", re.I)
PANIC_FNS = ("core::panicking::", "std::rt::begin_panic", "core::panicking::assert_failed", "std::rt::panic_fmt", "core::result::unwrap_failed", "core::option::expect_failed", "core::option::unwrap_failed")
CMP = ("Lt", "Le", "Gt", "Ge")
LIMIT_RE = re.compile(r"^(max|limit|cap|ceiling)|max_|_max|limit", re.I)


class DepthTest:
    __slots__ = ("bb", "succs", "panics", "const", "field", "op", "lhs_is_depth")

    def __init__(self, bb, succs, panics, const, field, op, lhs_is_depth):
        self.bb, self.succs, self.panics, self.const, self.field, self.op, self.lhs_is_depth = bb, succs, panics, const, field, op, lhs_is_depth


def diverges(f, start, succ):
    """True iff no return is reachable from `start`."""
    for b in reachable_from(f, start, succ):
        if f.blocks[b]["t"][0] == "ret":
            return False
    return True


def depth_tests(f):
    """Switches of f whose condition is an ordering comparison involving a depth-like value."""
    if getattr(f, "_dtests", None) is not None:
        return f._dtests
    out = []
    defs = local_defs(f)
    succ = f.successors(True)
    live = f.reachable_blocks(True)
    for bi, b in enumerate(f.blocks):
        t = b["t"]
        if t[0] != "switch" or bi not in live:
            continue
        pl = op_place(t[1])
        if pl is None or pl[1]:
            continue
        ds = defs.get(pl[0], [])
        # follow copies
        hops = 0
        while len(ds) == 1 and ds[0][1] == "rv" and ds[0][2][0] == "use" and op_place(ds[0][2][1]) is not None and not op_place(ds[0][2][1])[1] and hops < 4:
            ds = defs.get(op_place(ds[0][2][1])[0], [])
            hops += 1
        if len(ds) != 1 or ds[0][1] != "rv" or ds[0][2][0] != "bin" or ds[0][2][1] not in CMP:
            continue
        rv = ds[0][2]
        sides = []
        for o in (rv[2], rv[3]):
            if o[0] == "k":
                sides.append(("const", o[1].get("v"), o[1].get("item")))
                continue
            p = op_place(o)
            names = set()
            fields = {e[2] for e in p[1] if isinstance(e, list) and e[0] == "f"}
            sl = backward_slice(f, p[0], max_nodes=60, through_calls=False)
            names |= sl.names
            fields |= sl.fields
            hit = [x for x in (names | fields) if DEPTH_RE.search(x)]
            cv = None
            for k in sl.consts:
                if "v" in k and "item" in k:
                    cv = k["v"]
            lim = [x for x in (names | fields) if LIMIT_RE.search(x)]
            if hit:
                sides.append(("depth", sorted(hit)[:1], cv))
            elif cv is not None or lim:
                sides.append(("limit", None, cv))
            else:
                sides.append(("other", None, cv))
        kinds = [s[0] for s in sides]
        if "depth" not in kinds:
            continue
        # the other side must be a limit: a constant, a named const, or a max/limit parameter;
        # a depth value compared with a container length is a bounds test, not a depth guard
        if not any(k in ("const", "limit") for k in kinds) and kinds != ["depth", "depth"]:
            continue
        if kinds == ["depth", "depth"] and not any(s[2] is not None for s in sides):
            continue
        const = None
        for s in sides:
            if s[0] == "const":
                const = s[1]
            elif s[0] in ("other", "limit") and s[2] is not None:
                const = s[2]
        field = next((s[1][0] for s in sides if s[0] == "depth" and s[1]), None)
        ss = succ[bi]
        panics = [diverges(f, s, succ) for s in ss]
        out.append(DepthTest(bi, ss, panics, const, field, rv[1], kinds[0] == "depth"))
    f._dtests = out
    return out


def is_panic_call(name):
    return name is not None and any(name.startswith(p) or p in name for p in PANIC_FNS)


class Guards:
    """Discovery of depth-guard functions (those whose job is to test a depth value and fail)."""

    def __init__(self, P):
        self.P = P
        self.kind = {}  # fid -> 'panic' | 'error'
        self._compute()

    def _compute(self):
        P = self.P
        for f in P.fns.values():
            if len(f.blocks) > 40:
                continue
            ts = depth_tests(f)
            if not ts:
                continue
            # a guard function has no loops over input and no local recursion: small and mostly straight-line
            if any(any(t.panics) for t in ts):
                self.kind[f.id] = "panic"
            else:
                # returns Result / Option with an Err/None construction on one side
                if "Result<" in f.locals[0] or "Option<" in f.locals[0]:
                    self.kind[f.id] = "error"
        # wrappers: tiny functions that unconditionally call a guard
        changed = True
        while changed:
            changed = False
            for f in P.fns.values():
                if f.id in self.kind or len(f.blocks) > 6:
                    continue
                for c in f.calls:
                    ids = P._resolve_id(c)
                    if len(ids) == 1 and ids[0] in self.kind and self.kind[ids[0]] == "panic":
                        dom = f.dominators(True)
                        rets = [i for i, b in enumerate(f.blocks) if b["t"][0] == "ret"]
                        if all(c.bb in dom.get(r, ()) for r in rets):
                            self.kind[f.id] = "panic"
                            changed = True
                            break


def scc_edges(P, comp):
    """Call sites inside an SCC: list of (caller fn, Call, callee id)."""
    cs = set(comp)
    out = []
    for fid in comp:
        f = P.fns[fid]
        for c in f.calls:
            for i in P._resolve_id(c):
                if i in cs:
                    out.append((f, c, i))
        # closures constructed in f that belong to the SCC are edges at their construction site
        for bi, b in enumerate(f.blocks):
            for s in b["s"]:
                if s[0] == "a" and s[2][0] == "agg" and s[2][1].get("k") == "closure":
                    p = s[2][1]["path"]
                    cid = ("bin::" + p) if f.crate == "bin" else p
                    if cid in cs:
                        out.append((f, _FakeCall(f, bi, b["l"]), cid))
    return out


class _FakeCall:
    def __init__(self, fn, bb, line):
        self.fn, self.bb, self.line, self.args = fn, bb, line, []
        self.name = "<closure construction>"


def edge_guard(P, G, f, c):
    """How the recursive call site c in f is guarded: ('panic'|'error', description) or None."""
    succ = f.successors(True)
    dom = f.dominators(True)
    doms = dom.get(c.bb, set())
    # (1) inline depth test dominating the call, with the call on exactly one side
    for t in depth_tests(f):
        if t.bb not in doms or t.bb == c.bb:
            continue
        sides = [c.bb in reachable_from(f, s, succ, avoid=[t.bb]) for s in t.succs]
        if sum(sides) == 1:
            other_panics = any(p for s, p, on in zip(t.succs, t.panics, sides) if not on)
            return ("panic" if other_panics else "error", "inline test of `%s` at %s" % (t.field, f.loc(f.blocks[t.bb]["l"])))
    # (2) dominating call to a guard function
    for g in f.calls:
        if g.bb not in doms or g.bb == c.bb:
            continue
        ids = P._resolve_id(g)
        if len(ids) != 1 or ids[0] not in G.kind:
            continue
        kind = G.kind[ids[0]]
        if kind == "panic":
            return ("panic", "call to panicking guard %s at %s" % (ids[0], f.loc(g.line)))
        # error guard: its result must steer a switch that the call sits behind
        dest = g.dest[0] if hasattr(g, "dest") else None
        for bi in doms:
            b = f.blocks[bi]
            if b["t"][0] != "switch" or bi == c.bb:
                continue
            if g.bb not in dom.get(bi, set()):
                continue
            pl = op_place(b["t"][1])
            if pl is None:
                continue
            sl = backward_slice(f, pl[0], max_nodes=40)
            if dest in sl.locals:
                ss = succ[bi]
                sides = [c.bb in reachable_from(f, s, succ, avoid=[bi]) for s in ss]
                if sum(sides) == 1:
                    return ("error", "call to error guard %s at %s, result tested" % (ids[0], f.loc(g.line)))
    return None


def find_cycle(nodes, edges):
    """A cycle in the directed graph (list of nodes) or None."""
    adj = defaultdict(list)
    for a, b in edges:
        adj[a].append(b)
    color = {}
    for root in sorted(nodes):
        if root in color:
            continue
        stack = [(root, iter(adj[root]))]
        color[root] = 1
        path = [root]
        while stack:
            n, it = stack[-1]
            adv = False
            for m in it:
                if color.get(m) == 1:
                    return path[path.index(m):] + [m]
                if m not in color:
                    color[m] = 1
                    stack.append((m, iter(adj[m])))
                    path.append(m)
                    adv = True
                    break
            if not adv:
                color[n] = 2
                stack.pop()
                path.pop()
    return None


def analyse_recursion(P, roots):
    """For every recursive SCC reachable from roots: (comp, unguarded cycle or None, guard kinds, details)."""
    reach = P.reachable(roots)
    G = Guards(P)
    out = []
    for comp in P.sccs(reach):
        edges = scc_edges(P, comp)
        unguarded = []
        kinds = set()
        details = []
        for f, c, callee in edges:
            g = edge_guard(P, G, f, c)
            if g is None:
                unguarded.append((f.id, callee, f.loc(c.line)))
            else:
                kinds.add(g[0])
                details.append((f.id, callee, g))
        cyc = find_cycle(comp, [(a, b) for a, b, _ in unguarded])
        out.append((comp, cyc, kinds, unguarded, details))
    return out, G


# ------------------------------------------------------------------------------------------
# REC / PANICGUARD rules

# carrier classes (see DESIGN §3 REC): a function whose parameters mention an AST type recurses
# at most AST-depth deep (bounded by the parser caps, themselves checked here on the parser
# functions); YAML cursors are bounded by the loader's 128 cap.  Parser/validator methods are
# always 'data' (their recursion is driven by the text).
AST_RE = re.compile(r"jq::(expr::)?(Expr|Pattern|ObjectEntry|StringPart|ObjectKey|FuncDef|Program|Literal|Builtin|ArithOp|CompareOp)\b|jq::expr::")
YAML_RE = re.compile(r"yaml::(light::)?Yaml(Cursor|Value|Field|Fields|Elements|Number)\b|yaml::(index::)?YamlIndex\b")
TEXTDRIVEN_SELF = re.compile(r"jq::parser::Parser|json::validate::Validator|yaml::validate::Validator|yaml::parser::Parser")


def carrier_class(P, f):
    g = f
    if f.kind == "closure" and f.root in P.fns:
        g = P.fns[f.root]
    tys = list(g.locals[1:g.nargs + 1])
    if f.kind == "closure":
        tys += f.locals[1:f.nargs + 1]
    if tys and TEXTDRIVEN_SELF.search(tys[0]):
        return "data"
    s = " ".join(tys)
    if AST_RE.search(s):
        return "ast"
    if YAML_RE.search(s):
        return "yaml"
    return "data"


def entry_ids(P, patterns):
    out = []
    for fid, f in P.fns.items():
        if f.kind == "closure":
            continue
        for pat in patterns:
            if re.search(pat, fid):
                out.append(fid)
                break
    return out


def rule_rec(progs, tier, entries=None, name="REC", floor=1, scope=None):
    """Every cycle of the call graph reachable from the entry set, among functions whose
    recursion is driven by input data (not AST/YAML-cursor bounded), must contain a call edge
    dominated by a depth guard.  Reports each unguarded cycle (as its SCC in the unguarded-edge
    graph) keyed by its smallest member."""
    out = []
    for cfg, P in progs.items():
        res = RuleResult(name, cfg)
        out.append(res)
        roots = entry_ids(P, entries)
        if len(roots) < floor:
            res.bad("%s:entries" % name, "only %d entry points matched %r (anchor missing)" % (len(roots), entries))
            continue
        reach = P.reachable(roots)
        G = Guards(P)
        edges = []
        nodes = set()
        n_guarded = 0
        sccs = P.sccs(reach)
        for comp in sccs:
            for f, c, callee in scc_edges(P, comp):
                if carrier_class(P, f) != "data" or carrier_class(P, P.fns[callee]) != "data":
                    continue
                g = edge_guard(P, G, f, c)
                if g is None:
                    edges.append((f.id, callee, f.loc(c.line)))
                    nodes.add(f.id)
                    nodes.add(callee)
                else:
                    n_guarded += 1
                    if len(res.instances) < 400:
                        res.ok({"edge": "%s -> %s" % (f.id, callee), "guard": g[0], "how": g[1]})
        adj = defaultdict(set)
        for a, b, _ in edges:
            adj[a].add(b)
        sub = _SubGraph(P, nodes, adj)
        for comp in sub.sccs():
            if scope and not any(re.search(scope, m) for m in comp):
                continue
            key = "REC:%s" % (comp[0],)
            if comp[0] in REC_ACCEPTED:
                res.ok({"cycle": comp[:4], "accepted": REC_ACCEPTED[comp[0]]})
                continue
            locs = [l for a, b, l in edges if a in comp and b in comp][:3]
            chain = P.call_path(roots, comp[0])
            res.bad(
                key,
                "unguarded input-driven recursion: cycle {%s} has no call edge dominated by a depth guard; parameter types: %s; reached from entry via %s"
                % (", ".join(comp[:6]) + (" …" if len(comp) > 6 else ""), P.fns[comp[0]].locals[1:P.fns[comp[0]].nargs + 1], " -> ".join(chain[-5:]) if chain else "?"),
                locs[0] if locs else None,
            )
        res.note("%d recursive SCCs reachable from %d entries; %d guarded data-driven recursive edges; guard functions: %s" % (len(sccs), len(roots), n_guarded, sorted(G.kind.items())))
        res.ok({"sccs_reachable": len(sccs), "entries": len(roots), "guarded_edges": n_guarded, "unguarded_data_edges": len(edges)})
    return out


class _SubGraph:
    def __init__(self, P, nodes, adj):
        self.P, self.nodes, self.adj = P, nodes, adj

    def sccs(self):
        from .core import Program

        P2 = Program.__new__(Program)
        P2.fns = {n: self.P.fns[n] for n in self.nodes}
        P2._cg = self.adj
        return Program.sccs(P2, self.nodes)


def rule_panicguard(progs, tier, entries=None, name="PANICGUARD"):
    """Calls to panicking depth guards reachable from the entry set; each is a reachable panic
    for a deep enough input (the quantifier includes it)."""
    out = []
    for cfg, P in progs.items():
        res = RuleResult(name, cfg)
        out.append(res)
        roots = entry_ids(P, entries)
        reach = P.reachable(roots)
        G = Guards(P)
        pg = {k for k, v in G.kind.items() if v == "panic"}
        n = 0
        for fid in sorted(reach):
            f = P.fns[fid]
            if fid in pg:
                continue
            hit = None
            for c in f.calls:
                ids = P._resolve_id(c)
                if len(ids) == 1 and ids[0] in pg:
                    hit = (c, ids[0])
                    break
            if hit is None:
                # inline panicking depth test
                for t in depth_tests(f):
                    if any(t.panics):
                        hit = (None, "inline assert on `%s`" % t.field)
                        break
            if hit is None:
                continue
            n += 1
            c, g = hit
            res.bad(
                "%s:%s" % (name, fid),
                "panicking depth guard (%s) reachable from the entry set in %s: a sufficiently deep value panics instead of returning an error" % (g, fid),
                f.loc(c.line) if c is not None else f.loc(),
            )
        res.note("panicking guard functions: %s" % sorted(pg))
        if not pg:
            res.bad("%s:anchor" % name, "no panicking guard function recognised (anchor missing: fail closed)")
        res.ok({"reachable_fns": len(reach), "panicking_guard_sites": n})
    return out


# Hand-triaged unguarded cycles that are accepted (not violations), one reason each.
# Keyed by the REC key (smallest member of the cycle). A *new* unguarded cycle is not in this
# table and is reported.
REC_ACCEPTED = {
    "<jq::eval_generic::LazySeq<V> as std::iter::Iterator>::next":
        "lazy-sequence adaptor: recursion depth follows the nesting of LazySeq::Nested stages, which is built per Expr node (AST depth, bounded by the parser caps), not per input datum",
    "bin::jq_runner::print_json":
        "walks a JqValue that is either a raw cursor (printed from its byte span, no recursion) or a materialised value whose depth is capped by the materialisation guards (PANICGUARD sites, MAX_NESTING_DEPTH=256)",
    "jq::eval::builtin_tojsonstream::collect_stream":
        "walks an OwnedValue; every producer of nested OwnedValues reachable from eval is behind a depth guard (cap 256/384), so recursion depth is bounded by that cap",
    "jq::eval::delete_expr_array_paths":
        "recursion follows an OwnedValue being edited; its depth is capped at materialisation (cap 256/384)",
    "jq::eval::delete_paths_sorted":
        "recursion follows an OwnedValue and exits early where the value has no such path; value depth capped at materialisation",
    "jq::eval::get_value_at_path":
        "recursion stops at the first missing step (`null|getpath([range(100000)])` returns null without descending); depth bounded by the value's depth, capped at materialisation",
}


# ------------------------------------------------------------------------------------------
ALIGN_OF = {"u8": 1, "i8": 1, "bool": 1, "u16": 2, "i16": 2, "u32": 4, "i32": 4, "f32": 4, "u64": 8, "i64": 8, "f64": 8, "usize": 8, "isize": 8, "u128": 16, "i128": 16}
CAST_FNS = ("cast_slice", "cast_slice_mut", "cast_ref", "cast_mut", "from_bytes", "from_bytes_mut", "cast_vec", "cast_slice_box")


def _align(ty):
    t = ty.strip()
    m = re.match(r"^\[(.*); \d+\]$", t)
    if m:
        return _align(m.group(1))
    return ALIGN_OF.get(t)


def rule_align(progs, tier, name="ALIGN"):
    """Panicking alignment-increasing bytemuck casts on caller-supplied byte slices: a call
    `cast_slice::<A, B>` with align_of::<B>() > align_of::<A>() panics
    (TargetAlignmentGreaterAndInputNotAligned) whenever the slice does not start on a B boundary.
    Discharged by the fallible `try_cast_slice` (not reported) or by a dominating alignment test."""
    out = []
    for cfg, P in progs.items():
        res = RuleResult(name, cfg)
        out.append(res)
        n_calls = 0
        for f in sorted(P.fns.values(), key=lambda f: f.id):
            for c in f.calls:
                if "bytemuck" not in c.name:
                    continue
                short = c.name.rsplit("::", 1)[-1]
                n_calls += 1
                if short.startswith("try_") or short.startswith("pod_read_unaligned"):
                    res.ok({"site": f.id, "call": short, "types": c.gargs, "verdict": "fallible / alignment-free form"})
                    continue
                if short not in CAST_FNS or len(c.gargs) < 2:
                    res.ok({"site": f.id, "call": short, "types": c.gargs, "verdict": "not an alignment-sensitive cast"})
                    continue
                a, b = _align(c.gargs[0]), _align(c.gargs[1])
                if a is None or b is None:
                    res.bad("%s:%s:%s" % (name, f.id, short), "cannot determine alignment of %s -> %s in %s (fail closed)" % (c.gargs[0], c.gargs[1], f.id), f.loc(c.line))
                    continue
                if b <= a:
                    res.ok({"site": f.id, "call": short, "types": c.gargs, "verdict": "alignment-decreasing (always safe)"})
                    continue
                # dominating alignment test?
                dom = f.dominators(True).get(c.bb, set())
                guarded = False
                for g in f.calls:
                    if g.bb in dom and g.bb != c.bb and ("align_offset" in g.name or "is_aligned" in g.name):
                        guarded = True
                if guarded:
                    res.ok({"site": f.id, "call": short, "types": c.gargs, "verdict": "dominated by an alignment test"})
                    continue
                res.bad(
                    "%s:%s:%s<%s,%s>" % (name, f.id, short, c.gargs[0], c.gargs[1]),
                    "%s calls bytemuck::%s::<%s, %s> on its argument: panics for any slice that does not start on a %d-byte boundary" % (f.id, short, c.gargs[0], c.gargs[1], b),
                    f.loc(c.line),
                )
        if n_calls == 0:
            res.bad("%s:anchor" % name, "no bytemuck call found in the crate (anchor missing: fail closed)")
    return out


# ------------------------------------------------------------------------------------------
SINKS = {
    "str::<impl str>::repeat": 1, "slice::<impl [T]>::repeat": 1,
    "vec::Vec::<T, A>::resize": 1, "vec::Vec::<T>::with_capacity": 0, "vec::Vec::<T, A>::with_capacity_in": 0,
    "string::String::with_capacity": 0, "vec::from_elem": 1, "vec::Vec::<T, A>::reserve": 1, "vec::Vec::<T, A>::reserve_exact": 1,
    "string::String::reserve": 1, "string::String::reserve_exact": 1,
}


def rule_alloc(progs, tier, scope=r"^jq::", name="ALLOC"):
    """Allocation sizes derived from runtime numbers must be refused before allocating: taint
    sources are float->int casts and payloads of jq integers; sinks are the size arguments of
    repeat / resize / with_capacity / from_elem / reserve.  A sink is discharged when a
    try_reserve* / checked_* / comparison against a bound dominates it on the tainted value."""
    out = []
    for cfg, P in progs.items():
        res = RuleResult(name, cfg)
        out.append(res)
        n_sinks = 0
        for f in sorted(P.fns.values(), key=lambda f: f.id):
            if not re.search(scope, f.id):
                continue
            for c in f.calls:
                sink = None
                for sname, argi in SINKS.items():
                    if c.name.endswith(sname):
                        sink = (sname, argi)
                a = None
                if sink is None and (c.name.endswith("Iterator::collect") or c.name.endswith("FromIterator<T>>::from_iter") or c.name.endswith("iter::FromIterator::from_iter")) and c.args:
                    # collect() over a `0..n` range pre-allocates n elements (exact size hint)
                    ipl = op_place(c.args[0])
                    if ipl is not None:
                        isl = backward_slice(f, ipl[0], max_nodes=40)
                        dfs = local_defs(f)
                        for l in isl.locals:
                            for bi, kind, p in dfs.get(l, []):
                                if kind == "rv" and p[0] == "agg" and p[1].get("k") == "adt" and p[1]["path"].endswith("ops::Range") and len(p[2]) == 2:
                                    a = p[2][1]
                                    sink = ("Iterator::collect over 0..n", 0)
                if sink is None:
                    continue
                if a is None:
                    if sink[1] >= len(c.args):
                        continue
                    a = c.args[sink[1]]
                pl = op_place(a)
                if pl is None:
                    continue
                sl = backward_slice(f, pl[0], max_nodes=80)
                tainted = "FloatToInt" in sl.casts or any(re.search(r"NumberRepr|as_i64|as_f64|to_usize|as_u64", cn or "") for _, cn in sl.calls) or any(x in ("n", "count", "times") and False for x in sl.names)
                # payload of an Int variant: a downcast field read of OwnedValue::Int / NumberRepr::Int
                defs = local_defs(f)
                for l in sl.locals:
                    for bi, kind, p in defs.get(l, []):
                        if kind == "rv" and p[0] == "use":
                            q = op_place(p[1])
                            if q is not None and any(isinstance(e, list) and e[0] == "d" and e[1] in ("Int", "Float") for e in q[1]):
                                tainted = True
                if not tainted:
                    continue
                n_sinks += 1
                dom = f.dominators(True).get(c.bb, set())
                sanit = None
                for g in f.calls:
                    if g.bb in dom and g.bb != c.bb:
                        gs = g.name.rsplit("::", 1)[-1]
                        if gs.startswith("try_reserve") or gs.startswith("checked_") or gs in ("min", "clamp"):
                            # must concern the same value
                            for ga in g.args:
                                gp = op_place(ga)
                                if gp is not None and (gp[0] in sl.locals or backward_slice(f, gp[0], max_nodes=40).locals & sl.locals):
                                    sanit = gs
                if sanit is None:
                    # a dominating comparison of the tainted value with a constant / len
                    for t in f.blocks:
                        pass
                    for bi in dom:
                        b = f.blocks[bi]
                        if b["t"][0] != "switch":
                            continue
                        spl = op_place(b["t"][1])
                        if spl is None:
                            continue
                        ssl = backward_slice(f, spl[0], max_nodes=25, through_calls=False)
                        if (ssl.locals & sl.locals) and (set(ssl.binops) & {"Lt", "Le", "Gt", "Ge"}) and any("v" in k and k["v"] > 64 for k in ssl.consts):
                            sanit = "comparison with a bound"
                if sanit:
                    res.ok({"site": f.id, "sink": sink[0], "sanitiser": sanit})
                else:
                    res.bad("%s:%s:%s" % (name, f.id, sink[0].rsplit("::", 1)[-1]), "%s passes a size derived from a runtime number to %s with no dominating try_reserve / checked_* / bound test: an absurd count aborts the process (capacity overflow panic or allocation failure)" % (f.id, sink[0]), f.loc(c.line))
        res.ok({"tainted_sinks": n_sinks})
    return out


# ------------------------------------------------------------------------------------------
def rule_fallback(progs, tier, functions=(), fallback=r"(^|::)jq::eval_generic::eval_on_owned$|^jq::eval::eval\w*$", name="FALLBACK"):
    """In the generic evaluator's dispatch functions the catch-all edge of the switch on the
    `Expr` / `Builtin` discriminant must reach the full evaluator (directly or through the
    `eval_on_owned` bridge) on every path to a return: a construct the generic evaluator does
    not implement natively is delegated, never answered with a default value or a generic
    'unsupported' error."""
    out = []
    for cfg, P in progs.items():
        res = RuleResult(name, cfg)
        out.append(res)
        for fid, enum_re in functions:
            fs = P.find(fid)
            if len(fs) != 1:
                res.bad("%s:%s" % (name, fid), "dispatch function %s not found (anchor missing)" % fid)
                continue
            f = fs[0]
            defs = local_defs(f)
            succ = f.successors(True)
            live = f.reachable_blocks(True)
            # the dispatch switch: first live switch whose operand is the discriminant of a value of the enum type
            disp = None
            for bi in sorted(live):
                t = f.blocks[bi]["t"]
                if t[0] != "switch":
                    continue
                pl = op_place(t[1])
                if pl is None:
                    continue
                ds = [d for d in defs.get(pl[0], []) if d[1] == "rv" and d[2][0] == "disc"]
                if not ds:
                    continue
                src = ds[0][2][1]
                ty = f.locals[src[0]]
                if re.search(enum_re, ty) and len(t[2]) >= 8:
                    disp = (bi, t)
                    break
            if disp is None:
                res.bad("%s:%s" % (name, fid), "no dispatch switch over %s found in %s (idiom not recognised: fail closed)" % (enum_re, fid), f.loc())
                continue
            bi, t = disp
            other = t[3]
            listed = {tg for _, tg in t[2]}
            fb_blocks = set()
            for c in f.calls:
                if re.search(fallback, c.name):
                    fb_blocks.add(c.bb)
            if f.blocks[other]["t"][0] == "unreach":
                res.ok({"fn": f.id, "dispatch": "exhaustive match (no catch-all edge)", "arms": len(t[2])})
                continue
            reach = reachable_from(f, other, succ, avoid=fb_blocks)
            escapes = [b for b in reach if f.blocks[b]["t"][0] == "ret"]
            if other in fb_blocks:
                escapes = []
            if escapes:
                res.bad("%s:%s" % (name, f.id), "the catch-all arm of %s's dispatch over %s can return without calling the full evaluator (%s): constructs it does not implement natively are not delegated" % (f.id, enum_re, fallback), f.loc(f.blocks[other]["l"]))
            else:
                res.ok({"fn": f.id, "native_arms": len(t[2]), "catch_all": "every path to a return passes the full evaluator", "fallback_calls": len(fb_blocks)})
    return out
