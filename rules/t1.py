"""T1 — target-feature dominance.

Every call whose resolved callee requires a target-feature set F (beyond the x86_64 baseline)
from a caller that is not itself compiled with F must, on every feasible path from the
caller's entry, pass the establishing edge of a runtime test for each f in F.

Establishing tests (all inferred from MIR, none by name):
  (a) std_detect's `__is_feature_detected::<f>()`;
  (b) detector summaries: for bool-returning crate functions, the set of features implied by
      `true` / by `false`, computed by a must-dataflow (least fixpoint over the call graph);
  (c) cached detection through a static atomic: `S.load() == k` implies the features that
      were established at every store of k into S (stored values are partially evaluated
      against the bool they are computed from), and `OnceLock<bool>::get_or_init(S, closure)`;
  (d) a bool parameter ("flag parameter" idiom): the requirement becomes conditional on the
      argument and is checked at every caller;
  (e) wrapper inheritance: an unguarded requirement of a private function moves to its callers;
      for `pub` functions this is accepted only for the hand-confirmed wrapper table.
"""
from collections import defaultdict

from .core import op_place, op_int
from .harness import RuleResult

BASE = {"sse", "sse2", "fxsr", "x87", "cmpxchg16b"}

# rustc's x86 implication table (compiler/rustc_target/src/target_features.rs), transitive closure below
IMPLIES = {
    "sse2": ["sse"],
    "sse3": ["sse2"],
    "ssse3": ["sse3"],
    "sse4.1": ["ssse3"],
    "sse4.2": ["sse4.1"],
    "avx": ["sse4.2"],
    "avx2": ["avx"],
    "fma": ["avx"],
    "f16c": ["avx"],
    "avx512f": ["avx2", "fma", "f16c"],
    "avx512bw": ["avx512f"],
    "avx512vl": ["avx512f"],
    "avx512dq": ["avx512f"],
    "avx512cd": ["avx512f"],
    "avx512vpopcntdq": ["avx512f"],
    "avx512vbmi": ["avx512bw"],
    "avx512vbmi2": ["avx512bw"],
    "avx512bitalg": ["avx512bw"],
    "avx512vnni": ["avx512f"],
    "avx512ifma": ["avx512f"],
    "pclmulqdq": ["sse2"],
    "aes": ["sse2"],
    "sha": ["sse2"],
    "sse4a": ["sse3"],
    "vaes": ["avx2", "aes"],
    "vpclmulqdq": ["avx", "pclmulqdq"],
    "gfni": ["sse2"],
    "xsavec": ["xsave"],
    "xsaveopt": ["xsave"],
    "xsaves": ["xsave"],
}


def closure(feat):
    out = set()
    st = [feat]
    while st:
        f = st.pop()
        if f in out:
            continue
        out.add(f)
        st.extend(IMPLIES.get(f, []))
    return out


ALL = None  # sentinel handled by FSet


class FSet:
    """A set of features with a top element (ALL = 'unreachable / vacuous')."""

    __slots__ = ("top", "s")

    def __init__(self, s=(), top=False):
        self.top = top
        self.s = frozenset(s)

    def __or__(self, o):
        if self.top or o.top:
            return TOP
        return FSet(self.s | o.s)

    def __and__(self, o):
        if self.top:
            return o
        if o.top:
            return self
        return FSet(self.s & o.s)

    def __eq__(self, o):
        return self.top == o.top and self.s == o.s

    def __hash__(self):
        return hash((self.top, self.s))

    def covers(self, need):
        return self.top or set(need) <= self.s

    def feats(self):
        return set() if self.top else {x for x in self.s if not x.startswith("param:")}

    def params(self):
        return [] if self.top else sorted(int(x[6:]) for x in self.s if x.startswith("param:"))

    def __repr__(self):
        return "TOP" if self.top else "{%s}" % ",".join(sorted(self.s))


TOP = FSet(top=True)
EMPTY = FSet()

DETECT_PREFIXES = (
    "std_detect::detect::arch::x86::__is_feature_detected::",
    "std::std_detect::detect::arch::x86::__is_feature_detected::",
)


def detect_feature(name):
    for p in DETECT_PREFIXES:
        if name.startswith(p):
            return name[len(p):].replace("_", ".") if name[len(p):] in ("sse4_1", "sse4_2") else name[len(p):]
    if "__is_feature_detected::" in name:
        f = name.rsplit("::", 1)[1]
        return {"sse4_1": "sse4.1", "sse4_2": "sse4.2"}.get(f, f)
    return None


class T1:
    def __init__(self, prog):
        self.P = prog
        self.summary = {}  # fid -> (T, F) implied by returning true / false
        self.static_facts = {}  # (static, k) -> FSet
        self.static_poison = set()
        self.once_closures = defaultdict(list)  # static -> [closure fid]
        self.req = {}  # fid -> set(features) required unconditionally from callers
        self.creq = {}  # fid -> list[(param index, set(features))]
        self._an = {}

    # ---------------------------------------------------------------- per-function analysis
    def analyse(self, f):
        """Compute EST per block and T/F sets for bool locals of f under current summaries."""
        P = self.P
        nb = len(f.blocks)
        succ = f.successors(True)
        # definitions of locals: local -> list of (bb, kind, payload)
        defs = defaultdict(list)
        for bi, b in enumerate(f.blocks):
            for s in b["s"]:
                if s[0] == "a" and not s[1][1]:
                    defs[s[1][0]].append((bi, "rv", s[2]))
                elif s[0] == "a":
                    defs[s[1][0]].append((bi, "partial", s[2]))
            t = b["t"]
            if t[0] == "call" and not t[3][1]:
                defs[t[3][0]].append((bi, "call", t))
        calls_by_bb = {c.bb: c for c in f.calls}

        est = [TOP] * nb
        est[0] = FSet(f.tf)
        tf_cache = {}

        def tf_of_local(l, depth=0):
            """(T, F) for local l: features implied when l is true / false."""
            if l in tf_cache:
                return tf_cache[l]
            if depth > 12:
                return (EMPTY, EMPTY)
            tf_cache[l] = (EMPTY, EMPTY)  # cycle breaker (loops): pessimistic
            if 1 <= l <= f.nargs and f.locals[l] == "bool" and l not in defs:
                r = (FSet({"param:%d" % (l - 1)}), EMPTY)
                tf_cache[l] = r
                return r
            ds = defs.get(l, [])
            if not ds:
                return (EMPTY, EMPTY)
            T, Fa = TOP, TOP
            for bi, kind, payload in ds:
                t1, f1 = self.tf_of_def(f, bi, kind, payload, tf_of_local, depth, calls_by_bb)
                e = est[bi]
                T = T & (t1 | e)
                Fa = Fa & (f1 | e)
            tf_cache[l] = (T, Fa)
            return (T, Fa)

        def gain(bi, tgt):
            b = f.blocks[bi]
            t = b["t"]
            if t[0] != "switch":
                return EMPTY
            op = t[1]
            pl = op_place(op)
            if pl is None or pl[1]:
                return EMPTY
            l = pl[0]
            arms = t[2]
            other = t[3]
            ty = t[4]
            if ty == "bool":
                T, Fa = tf_of_local(l)
                # which value leads to tgt?
                vals = [v for v, tg in arms if tg == tgt]
                res = TOP
                hit = False
                for v in vals:
                    res = res & (T if v else Fa)
                    hit = True
                if other == tgt:
                    listed = {v for v, _ in arms}
                    for v in (0, 1):
                        if v not in listed:
                            res = res & (T if v else Fa)
                            hit = True
                return res if hit else EMPTY
            # integer switch on a value loaded from a static cache
            st = self.static_of_local(f, l, defs, calls_by_bb)
            if st is not None and st not in self.static_poison:
                vals = [v for v, tg in arms if tg == tgt]
                if other == tgt or not vals:
                    return EMPTY
                res = TOP
                for v in vals:
                    res = res & self.static_facts.get((st, v), EMPTY)
                return res
            return EMPTY

        # must-dataflow, greatest fixpoint from TOP (TOP = not yet reached / unreachable)
        preds = [[] for _ in range(nb)]
        for bi in range(nb):
            for tg in succ[bi]:
                preds[tg].append(bi)
        for _sweep in range(200):
            tf_cache.clear()
            changed = False
            for bi in range(1, nb):
                acc = TOP
                for p in preds[bi]:
                    if est[p].top:
                        continue
                    acc = acc & (est[p] | gain(p, bi))
                if acc != est[bi]:
                    est[bi] = acc
                    changed = True
            if not changed:
                break
        tf_cache.clear()
        self._an[f.id] = (est, tf_of_local, defs, calls_by_bb)
        return est, tf_of_local, defs, calls_by_bb

    def static_of_local(self, f, l, defs, calls_by_bb):
        """If local l is the result of `Atomic::load(&STATIC)`, return the static's path."""
        ds = defs.get(l, [])
        if len(ds) != 1:
            return None
        bi, kind, payload = ds[0]
        if kind == "rv" and payload[0] == "use":
            pl = op_place(payload[1])
            if pl is not None and not pl[1]:
                return self.static_of_local(f, pl[0], defs, calls_by_bb)
            return None
        if kind != "call":
            return None
        c = calls_by_bb[bi]
        if not c.name.endswith("::load") or "atomic" not in c.name:
            return None
        return self.static_of_operand(f, c.args[0], defs)

    def static_of_operand(self, f, op, defs, depth=0):
        if depth > 6:
            return None
        if op[0] == "k":
            return op[1].get("static")
        pl = op_place(op)
        if pl is None:
            return None
        ds = defs.get(pl[0], [])
        if len(ds) != 1:
            return None
        bi, kind, payload = ds[0]
        if kind != "rv":
            return None
        if payload[0] == "use":
            return self.static_of_operand(f, payload[1], defs, depth + 1)
        if payload[0] == "ref":
            # &(*_x)
            inner = payload[2]
            return self.static_of_operand(f, ["c", [inner[0], []]], defs, depth + 1)
        return None

    def tf_of_def(self, f, bi, kind, payload, tf_of_local, depth, calls_by_bb):
        if kind == "partial":
            return (EMPTY, EMPTY)
        if kind == "call":
            c = calls_by_bb[bi]
            feat = detect_feature(c.name)
            if feat is not None:
                return (FSet(closure(feat)), EMPTY)
            # OnceLock<bool>::get_or_init(&S, closure) -> &bool
            if c.name.endswith("OnceLock::<T>::get_or_init") or "OnceLock" in c.name and c.name.endswith("::get_or_init"):
                an = self._an.get(f.id)
                st = self.static_of_operand(f, c.args[0], self._defs_of(f))
                if st is not None and self.once_closures.get(st):
                    T, Fa = TOP, TOP
                    for cid in self.once_closures[st]:
                        t1, f1 = self.summary.get(cid, (EMPTY, EMPTY))
                        T, Fa = T & t1, Fa & f1
                    if st in self.static_poison:
                        return (EMPTY, EMPTY)
                    return (T, Fa)
                return (EMPTY, EMPTY)
            ids = self.P._resolve_id(c)
            if len(ids) == 1 and ids[0] in self.summary:
                T, Fa = self.summary[ids[0]]
                # substitute param tokens of the callee by the caller's argument facts
                T = self.subst(T, c, tf_of_local, depth)
                Fa = self.subst(Fa, c, tf_of_local, depth)
                return (T, Fa)
            # u8::from(bool) etc: not bool-valued
            return (EMPTY, EMPTY)
        rv = payload
        k = rv[0]
        if k == "use":
            op = rv[1]
            if op[0] == "k":
                v = op[1].get("v")
                if v == 0:
                    return (TOP, EMPTY)
                if v == 1:
                    return (EMPTY, TOP)
                return (EMPTY, EMPTY)
            pl = op_place(op)
            if pl is None:
                return (EMPTY, EMPTY)
            if not pl[1]:
                return tf_of_local(pl[0], depth + 1)
            if pl[1] == ["*"]:
                # deref of a reference local: (T,F) of the reference's referent result
                return tf_of_local(pl[0], depth + 1)
            return (EMPTY, EMPTY)
        if k == "un" and rv[1] == "Not":
            pl = op_place(rv[2])
            if pl is not None and not pl[1]:
                T, Fa = tf_of_local(pl[0], depth + 1)
                return (Fa, T)
            return (EMPTY, EMPTY)
        if k == "bin" and rv[1] in ("BitAnd",):
            a, b = rv[2], rv[3]
            out_T = EMPTY
            for o in (a, b):
                pl = op_place(o)
                if pl is not None and not pl[1]:
                    T, _ = tf_of_local(pl[0], depth + 1)
                    out_T = out_T | T
            return (out_T, EMPTY)
        return (EMPTY, EMPTY)

    def _defs_of(self, f):
        an = self._an.get(f.id)
        if an:
            return an[2]
        defs = defaultdict(list)
        for bi, b in enumerate(f.blocks):
            for s in b["s"]:
                if s[0] == "a" and not s[1][1]:
                    defs[s[1][0]].append((bi, "rv", s[2]))
            t = b["t"]
            if t[0] == "call" and not t[3][1]:
                defs[t[3][0]].append((bi, "call", t))
        return defs

    def subst(self, fs, call, tf_of_local, depth):
        if fs.top:
            return fs
        ps = fs.params()
        if not ps:
            return fs
        out = FSet(fs.feats())
        # param tokens of the callee are dropped (conservative) unless the arg is itself established
        for i in ps:
            if i < len(call.args):
                a = call.args[i]
                pl = op_place(a)
                if pl is not None and not pl[1]:
                    T, _ = tf_of_local(pl[0], depth + 1)
                    out = out | T
        return out

    # ---------------------------------------------------------------- summaries
    def return_tf(self, f):
        est, tf_of_local, defs, cbb = self.analyse(f)
        T, Fa = tf_of_local(0)
        # a #[target_feature] function's own features are an assumption, not an establishment
        own = set(f.tf)
        if own:
            if not T.top:
                T = FSet(T.s - own)
            if not Fa.top:
                Fa = FSet(Fa.s - own)
        return (T, Fa)

    def compute(self):
        P = self.P
        # candidates for detector summaries: bool-returning functions (and closures)
        cands = [f for f in P.fns.values() if f.locals and f.locals[0] == "bool"]
        # OnceLock closures: get_or_init(&STATIC, closure)
        for f in P.fns.values():
            for c in f.calls:
                if "OnceLock" in c.name and c.name.endswith("::get_or_init"):
                    defs = self._defs_of(f)
                    st = self.static_of_operand(f, c.args[0], defs)
                    if st is None:
                        continue
                    # closure argument: its type names the closure def path
                    cid = None
                    a = c.args[1] if len(c.args) > 1 else None
                    for g in c.gargs:
                        if "{closure" in g:
                            cid = P.norm(g.strip("{}").split(" ")[0] if False else g, False)
                    # resolve by type string of the closure local
                    if a is not None:
                        pl = op_place(a)
                        if pl is not None:
                            ty = f.locals[pl[0]]
                            cid = closure_id_from_ty(ty, f)
                        elif a[0] == "k":
                            cid = closure_id_from_ty(a[1].get("ty", ""), f)
                    if cid and cid in P.fns:
                        self.once_closures[st].append(cid)
                    else:
                        self.static_poison.add(st)
                elif "OnceLock" in c.name and (c.name.endswith("::set") or c.name.endswith("::get_mut") or c.name.endswith("::take")):
                    defs = self._defs_of(f)
                    st = self.static_of_operand(f, c.args[0], defs)
                    if st:
                        self.static_poison.add(st)
        # least fixpoint
        for it in range(8):
            changed = False
            self._an.clear()
            # static store facts under current summaries
            sf = {}
            poison = set(self.static_poison)
            for f in P.fns.values():
                for c in f.calls:
                    if "atomic" in c.name and (c.name.endswith("::store") or c.name.endswith("::swap") or c.name.endswith("::compare_exchange") or c.name.endswith("::fetch_or") or c.name.endswith("::fetch_add")):
                        defs = self._defs_of(f)
                        st = self.static_of_operand(f, c.args[0], defs)
                        if st is None:
                            continue
                        if not c.name.endswith("::store"):
                            poison.add(st)
                            continue
                        est, tf_of_local, defs, cbb = self.analyse(f)
                        vals = self.stored_values(f, c, est, tf_of_local, defs)
                        if vals is None:
                            poison.add(st)
                            continue
                        for k, fs in vals:
                            key = (st, k)
                            sf[key] = (sf[key] & fs) if key in sf else fs
            if sf != self.static_facts or poison != self.static_poison:
                self.static_facts = sf
                self.static_poison = poison
                changed = True
                self._an.clear()
            for f in cands:
                T, Fa = self.return_tf(f)
                # TOP summaries mean "never returns true": keep as-is (vacuous) only for T
                old = self.summary.get(f.id)
                new = (T, Fa)
                if old != new:
                    self.summary[f.id] = new
                    changed = True
            if not changed:
                break
        # drop empty summaries
        self.summary = {k: v for k, v in self.summary.items() if not (v[0] == EMPTY and v[1] == EMPTY)}

    def stored_values(self, f, call, est, tf_of_local, defs):
        """For `S.store(x)`: list of (k, features established whenever k is stored) or None."""
        x = call.args[1]
        if x[0] == "k":
            v = x[1].get("v")
            if v is None:
                return None
            return [(v, est[call.bb])]
        pl = op_place(x)
        if pl is None or pl[1]:
            return None
        l = pl[0]
        ds = defs.get(l, [])
        # form 1: constants assigned on different branches
        if ds and all(kind == "rv" and p[0] == "use" and p[1][0] == "k" and "v" in p[1][1] for _, kind, p in ds):
            out = {}
            for bi, _, p in ds:
                k = p[1][1]["v"]
                out[k] = (out[k] & est[bi]) if k in out else est[bi]
            return list(out.items())
        # form 2: a pure function of one bool local b: evaluate for b in {0,1}
        bools = self.bool_sources(f, l, defs, set())
        if len(bools) == 1:
            b = next(iter(bools))
            T, Fa = tf_of_local(b)
            res = []
            for bv, fs in ((1, T), (0, Fa)):
                k = self.eval_with(f, l, defs, {b: bv}, 0)
                if k is None:
                    return None
                res.append((k, fs | est[call.bb]))
            if res[0][0] == res[1][0]:
                return [(res[0][0], res[0][1] & res[1][1])]
            return res
        return None

    def bool_sources(self, f, l, defs, seen):
        if l in seen:
            return set()
        seen.add(l)
        if f.locals[l] == "bool":
            ds = defs.get(l, [])
            # a bool produced by a call or a parameter is a source
            if not ds or any(kind == "call" for _, kind, _ in ds):
                return {l}
        out = set()
        for bi, kind, p in defs.get(l, []):
            if kind == "call":
                t = p
                for a in t[2]:
                    pl = op_place(a)
                    if pl is not None and not pl[1]:
                        out |= self.bool_sources(f, pl[0], defs, seen)
            elif kind == "rv":
                for o in operands_of(p):
                    pl = op_place(o)
                    if pl is not None and not pl[1]:
                        out |= self.bool_sources(f, pl[0], defs, seen)
        return out

    def eval_with(self, f, l, defs, env, depth):
        if depth > 10:
            return None
        if l in env:
            return env[l]
        ds = defs.get(l, [])
        if len(ds) != 1:
            return None
        bi, kind, p = ds[0]

        def ev(op):
            if op[0] == "k":
                return op[1].get("v")
            pl = op_place(op)
            if pl is None or pl[1]:
                return None
            return self.eval_with(f, pl[0], defs, env, depth + 1)

        if kind == "call":
            name = p[1][1].get("r", p[1][1].get("fn", "")) if p[1][0] == "k" else ""
            if name.endswith("From<bool>>::from") or name.endswith("convert::From<bool>>::from") or "From<bool>" in name:
                return ev(p[2][0])
            return None
        if p[0] == "use":
            return ev(p[1])
        if p[0] == "un" and p[1] == "Not":
            v = ev(p[2])
            return None if v is None else (0 if v else 1)
        if p[0] == "cast":
            return ev(p[2])
        if p[0] == "bin":
            a, b = ev(p[2]), ev(p[3])
            if a is None or b is None:
                return None
            if p[1] == "Add":
                return (a + b) & 0xFF
            if p[1] == "Sub":
                return (a - b) & 0xFF
            return None
        return None

    # ---------------------------------------------------------------- obligations
    def check(self, res, wrappers):
        P = self.P
        self.compute()
        rcg = P.rev_callgraph()
        # unconditional requirements bubble up through private/unguarded functions
        req = {}  # fid -> set of features
        creq = {}  # fid -> {param: set}
        work = [f.id for f in P.fns.values()]
        pending = set(work)
        reported = set()
        crossings = []

        def needs_of(c, caller):
            """Feature sets needed by call c: list of (need, condition_operand or None)."""
            out = []
            ids = P._resolve_id(c)
            if ids:
                for i in ids:
                    g = P.fns[i]
                    need = set(g.tf) | req.get(i, set())
                    need -= BASE
                    if need:
                        out.append((need, None, i))
                    for pi, fs in creq.get(i, {}).items():
                        if pi < len(c.args):
                            out.append((set(fs) - BASE, c.args[pi], i))
            elif c.raw[0] == "k" and c.raw[1].get("ctf"):
                need = set(c.raw[1]["ctf"]) - BASE
                if need:
                    out.append((need, None, c.name))
            return out

        rounds = 0
        while pending and rounds < 200000:
            rounds += 1
            fid = pending.pop()
            f = P.fns[fid]
            est = None
            new_req = set()
            new_creq = {}
            for c in f.calls:
                ns = needs_of(c, f)
                if not ns:
                    continue
                if est is None:
                    est, tf_of_local, defs, cbb = self.analyse(f)
                for need, cond, callee in ns:
                    have = est[c.bb]
                    if have.top:
                        continue  # unreachable under constant pruning
                    extra = EMPTY
                    if cond is not None:
                        if cond[0] == "k":
                            if cond[1].get("v") == 0:
                                continue
                        else:
                            pl = op_place(cond)
                            if pl is not None and not pl[1]:
                                extra = tf_of_local(pl[0])[0]
                    tot = have | extra
                    if tot.top:
                        continue
                    missing = need - tot.feats()
                    if not missing:
                        continue
                    ps = tot.params()
                    if ps:
                        for pi in ps[:1]:
                            new_creq.setdefault(pi, set()).update(missing)
                    else:
                        new_req |= missing
            # closures: requirement moves to the constructing function (handled through callgraph:
            # closure bodies are separate fns; their req bubbles to whoever constructs/calls them)
            if new_req != req.get(fid, set()) or new_creq != creq.get(fid, {}):
                if new_req:
                    req[fid] = new_req
                else:
                    req.pop(fid, None)
                if new_creq:
                    creq[fid] = new_creq
                else:
                    creq.pop(fid, None)
                for caller in rcg.get(fid, ()):
                    pending.add(caller)
        self.req, self.creq = req, creq

        # closures are invoked by std code we do not see: treat the function that constructs a
        # requiring closure as requiring it, unless the construction site is itself established.
        closure_viol = []
        for fid, need in list(req.items()):
            f = P.fns[fid]
            if f.kind == "closure":
                root = P.fns.get(f.root)
                ok = False
                if root is not None:
                    est, _, _, _ = self.analyse(root)
                    for bi, b in enumerate(root.blocks):
                        for s in b["s"]:
                            if s[0] == "a" and s[2][0] == "agg" and s[2][1].get("k") == "closure":
                                p = s[2][1]["path"]
                                cid = ("bin::" + p) if root.crate == "bin" else p
                                if cid == fid and (est[bi].covers(need - BASE)):
                                    ok = True
                if not ok:
                    closure_viol.append((fid, need))

        # report: every crossing site as an instance; violations where a requirement reaches a
        # function that is pub (and not a confirmed wrapper), has no callers, or is a closure.
        n_cross = 0
        for f in P.fns.values():
            est = None
            for c in f.calls:
                ns = needs_of(c, f)
                ns = [(need, cond, cal) for need, cond, cal in ns if (need - f.tf - BASE)]
                if not ns:
                    continue
                if est is None:
                    est, tf_of_local, defs, cbb = self.analyse(f)
                for need, cond, callee in ns:
                    n_cross += 1
                    have = est[c.bb]
                    how = "established on every path: %s" % have
                    if fid_req := (req.get(f.id) or creq.get(f.id)):
                        how = "inherited by callers (wrapper / flag parameter): %s" % (fid_req,)
                    res.ok({"site": "%s -> %s" % (f.id, callee), "need": sorted(need - BASE), "how": how})
        # requirements that reach an undischargeable function (pub and not a confirmed wrapper, or never
        # called) are violations; they are reported once, at the ORIGIN: the function whose own call site
        # lacks the guard (not at every function the requirement bubbles through).
        escaping = {}
        for fid, need in sorted(req.items()):
            f = P.fns[fid]
            callers = rcg.get(fid, set()) - {fid}
            if f.kind == "closure":
                continue
            if fid in wrappers:
                res.note("confirmed safe wrapper %s requires %s from its callers" % (fid, sorted(need)))
                continue
            if f.pub or not callers:
                escaping[fid] = need
        origins = {}
        for fid, need in escaping.items():
            # walk down to the functions whose requirement is not inherited from a callee's requirement
            st = [fid]
            seen = set()
            while st:
                g = st.pop()
                if g in seen:
                    continue
                seen.add(g)
                gf = P.fns[g]
                inherited = False
                for c in gf.calls:
                    for i in P._resolve_id(c):
                        if i in req and i not in wrappers and (req[i] & need) and not (set(P.fns[i].tf) & need):
                            st.append(i)
                            inherited = True
                if not inherited:
                    origins.setdefault(g, (set(), set()))
                    origins[g][0].update(need)
                    origins[g][1].add(fid)
        for g, (need, tops) in sorted(origins.items()):
            gf = P.fns[g]
            site = self.first_unguarded_site(gf, need)
            res.bad(
                "T1:%s:%s" % (g, "+".join(sorted(need))),
                "function %s makes a call requiring target features %s without a dominating runtime detection (%s); the requirement escapes through %s, "
                "which no caller can discharge" % (g, sorted(need), site, sorted(tops)[:4]),
                gf.loc(),
            )
        for fid, need in closure_viol:
            f = P.fns[fid]
            res.bad(
                "T1:%s:%s" % (fid, "+".join(sorted(need))),
                "closure %s calls code requiring %s and is not constructed under a detection guard" % (fid, sorted(need)),
                f.loc(),
            )
        for fid, cr in sorted(creq.items()):
            f = P.fns[fid]
            res.note("flag-parameter dispatcher %s: param %s guards %s" % (fid, list(cr.keys()), [sorted(v) for v in cr.values()]))
        return n_cross

    def first_unguarded_site(self, f, need):
        est, _, _, _ = self.analyse(f)
        for c in f.calls:
            ids = self.P._resolve_id(c)
            for i in ids:
                g = self.P.fns[i]
                n = (set(g.tf) | self.req.get(i, set())) - BASE
                if n and not est[c.bb].covers(n):
                    return "call to %s at %s" % (i, f.loc(c.line))
            if not ids and c.raw[0] == "k" and c.raw[1].get("ctf"):
                n = set(c.raw[1]["ctf"]) - BASE
                if n and not est[c.bb].covers(n):
                    return "call to %s at %s" % (c.name, f.loc(c.line))
        return "site not located"


def operands_of(rv):
    k = rv[0]
    if k in ("use",):
        return [rv[1]]
    if k == "cast":
        return [rv[2]]
    if k == "bin":
        return [rv[2], rv[3]]
    if k == "un":
        return [rv[2]]
    if k == "agg":
        return rv[2]
    return []


def closure_id_from_ty(ty, f):
    # type strings look like `{closure@src/yaml/simd/x86.rs:54:26: 54:28}`; map through the
    # function's own closures (same root) by position
    if "closure@" not in ty:
        return None
    try:
        pos = ty.split("closure@", 1)[1]
        parts = pos.split(":")
        line = int(parts[1])
    except Exception:
        return None
    best = None
    for g in f.prog.fns.values():
        if g.kind == "closure" and g.root == (f.root or f.id) and g.file.endswith(parts[0].split("/")[-1]) and g.line == line:
            best = g.id
    return best


# hand-confirmed: pub safe wrappers whose doc/SAFETY comment says "caller must ensure <feature>"
# and whose every in-crate caller is checked by this rule.
WRAPPERS = {
    "json::simd::avx2::build_semi_index_standard": "pub safe wrapper around the AVX2 builder; dispatcher json::simd::build_semi_index_standard guards it",
    "json::simd::avx2::build_semi_index_simple": "same, simple cursor",
    "dsv::simd::avx2::build_index_simd": "pub wrapper; dsv::simd::build_index_simd guards it with detect_avx2()",
    "dsv::simd::bmi2::build_index_simd": "pub wrapper; dispatcher guards with detect_bmi2() && detect_avx2()",
}


def rule_t1(progs, tier, scope=None, floor=None):
    out = []
    for cfg, P in progs.items():
        res = RuleResult("T1", cfg)
        t = T1(P)
        n = t.check(res, WRAPPERS)
        dets = sorted("%s=>%s" % (k, v[0]) for k, v in t.summary.items() if v[0].feats() and not v[0].top)
        res.note("detector summaries (true implies): %s" % dets[:20])
        res.note("static cache facts: %s" % sorted("%s==%s=>%s" % (k[0], k[1], v) for k, v in t.static_facts.items()))
        if scope:
            res.instances = [i for i in res.instances if "VIOLATED" in i or any(s in i.get("site", "") for s in scope)]
            res.violations = [v for v in res.violations if v.key.endswith(":floor") or any(s in v.key for s in scope) or True]
        if floor is not None:
            res.require_floor(floor.get(cfg, floor.get("*", 0)) if isinstance(floor, dict) else floor, "feature-crossing call sites")
        out.append(res)
    return out
