"""RANKTAB — pure rank/select helper functions of the YAML position tables
(`AdvancePositions` and its sibling copy `CompactEndPositions`) evaluated from MIR on structs
built by the rule from the documented field invariants (cumulative-popcount arrays with
len+1 entries, sampled-select arrays with one entry per SELECT_SAMPLE_RATE ones), for every
bitmap of a bounded family and every argument, against rank/select defined by counting bits.
The sibling copies must agree with the definition, hence with each other."""
from .harness import RuleResult
from .minimir import Adt, Interp, Opaque, Panic, Slice, Unsupported
from .stdmodel import tmp_ref

M = (1 << 64) - 1
WORDSETS = [
    [], [0], [1], [M], [1 << 63], [0x8000000000000001], [0xAAAAAAAAAAAAAAAA],
    [M, M], [0, M], [M, 0], [1 << 63, 1], [M, M, M], [0, 0, 1 << 63], [0x0123456789ABCDEF, 0xFEDCBA9876543210, 0x00FF00FF00FF00FF],
]


def bits_of(words):
    out = []
    for w in words:
        out.extend((w >> i) & 1 for i in range(64))
    return out


def cum_rank(words):
    r = [0]
    for w in words:
        r.append(r[-1] + bin(w).count("1"))
    return r


def mk_struct(P, path, vals):
    a = P.adts[path]
    fields = []
    for f in a["variants"][0]["fields"]:
        n = f["name"]
        if n in vals:
            fields.append(vals[n])
        elif f["ty"].startswith("std::vec::Vec") or f["ty"].startswith("alloc::vec::Vec"):
            fields.append([])
        elif f["ty"] in ("usize", "u32", "u64"):
            fields.append(0)
        else:
            fields.append(Opaque(n))
    return Adt(path, 0, path.rsplit("::", 1)[-1], fields)


def opt(r):
    if isinstance(r, Adt) and r.path.endswith("Option"):
        return r.fields[0] if r.vi == 1 else None
    return r


def rule_ranktab(progs, tier, name="RANKTAB"):
    out = []
    for cfg, P in progs.items():
        res = RuleResult(name, cfg)
        out.append(res)
        I = Interp(P, max_steps=400000)
        I.features = {"bmi2": True, "avx2": True, "avx512f": False}
        rate_c = P.consts.get("yaml::advance_positions::SELECT_SAMPLE_RATE")
        rate = rate_c.get("v") if rate_c else None
        if not rate:
            res.bad("%s:anchor" % name, "SELECT_SAMPLE_RATE not found")
            continue
        structs = [("yaml::advance_positions::AdvancePositions", "AdvancePositions"), ("yaml::end_positions::CompactEndPositions", "CompactEndPositions")]
        long_sets = [[M] * 5, [M, 0, M, M, 0, M, M], [0x5555555555555555] * 9] if tier == "thorough" else [[M] * 5, [0x5555555555555555] * 9]

        def check(label, fn, mk, args_for, expect):
            bad = None
            n = 0
            try:
                for words in WORDSETS + (long_sets if "select" in label else []):
                    st = mk(words)
                    for a in args_for(words):
                        # both in-word select paths: PDEP (fast BMI2 detected) and the portable one
                        flag = (n % 2)
                        I.overrides["util::simd::x86::has_fast_bmi2"] = lambda args, f=flag: f
                        I.statics.pop("util::broadword::select_in_word::HAS_FAST_BMI2", None)
                        got = opt(I.call(fn, [tmp_ref(st)] + list(a)))
                        if isinstance(got, list):
                            got = got[0]
                        exp = expect(words, *a)
                        n += 1
                        if got != exp and bad is None:
                            bad = (words, a, got, exp)
            except Panic as e:
                res.bad("%s:%s" % (name, label), "%s panics on bitmap %s args %s: %s" % (fn, [hex(w) for w in words][:4], a, e))
                return
            except (Unsupported, KeyError) as e:
                res.bad("%s:%s" % (name, label), "cannot evaluate %s: %s" % (fn, e))
                return
            res.cells += n
            res.engines += 1
            if bad:
                words, a, got, exp = bad
                res.bad("%s:%s" % (name, label), "%s on bitmap %s (%d words) with argument %s returns %r, counting bits gives %r" % (fn, [hex(w) for w in words][:4], len(words), a, got, exp))
            else:
                res.ok({"fn": fn, "cases": n})

        def rank_exp(words, pos):
            return sum(bits_of(words)[:pos])

        def sel_exp(words, k):
            c = 0
            for i, b in enumerate(bits_of(words)):
                if b:
                    if c == k:
                        return i
                    c += 1
            return None

        def samples(words):
            s = []
            c = 0
            for i, b in enumerate(bits_of(words)):
                if b:
                    if c % rate == 0:
                        s.append(i)
                    c += 1
            return s

        for path, short in structs:
            if path not in P.adts:
                res.bad("%s:%s" % (name, short), "struct %s not found" % path)
                continue
            fnames = {f["name"] for f in P.adts[path]["variants"][0]["fields"]}

            def mk_adv(words, path=path):
                ones = sum(bits_of(words))
                return mk_struct(P, path, {"advance_words": list(words), "advance_rank": cum_rank(words), "num_opens": 64 * len(words), "ib_words": [], "ib_rank": [0], "ib_select_samples": [], "ib_len": 0, "ib_ones": 0})

            def mk_ib(words, path=path):
                ones = sum(bits_of(words))
                return mk_struct(P, path, {"ib_words": list(words), "ib_rank": cum_rank(words), "ib_select_samples": samples(words), "ib_len": 64 * len(words), "ib_ones": ones, "advance_words": [], "advance_rank": [0], "num_opens": 0})

            pref = path + "::"
            if P.find(pref + "advance_rank1"):
                check("%s::advance_rank1" % short, pref + "advance_rank1", mk_adv, lambda w: [(p,) for p in range(0, 64 * len(w) + 3)], rank_exp)
            if P.find(pref + "ib_rank1"):
                check("%s::ib_rank1" % short, pref + "ib_rank1", mk_ib, lambda w: [(p,) for p in range(0, 64 * len(w) + 3)], rank_exp)
            if P.find(pref + "ib_select1_with_state"):
                check("%s::ib_select1_with_state" % short, pref + "ib_select1_with_state", mk_ib, lambda w: [(k,) for k in sorted(set(list(range(0, min(sum(bits_of(w)), 70) + 2)) + [max(sum(bits_of(w)) - 1, 0), sum(bits_of(w)), rate - 1, rate, rate + 1, 2 * rate]))], sel_exp)
            if P.find(pref + "advance_select1"):
                check("%s::advance_select1" % short, pref + "advance_select1", mk_adv, lambda w: [(k,) for k in range(0, sum(bits_of(w)) + 2)], sel_exp)
        res.require_floor(5, "helper tabulations")
    return out
