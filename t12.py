import sys,os,time,glob,re
sys.path.insert(0,'/verif')
from rules import core, cgrules
d=sorted(glob.glob('/verif/build/facts/*/cli'))[-1]
P=core.Program('cli',d)
E30=[r'^jq::(eval|eval_generic|parser)::(eval\w*|parse\w*)$', r'^bin::jq_runner::', r'^bin::output::']
for r in cgrules.rule_rec({'cli':P},'quick',entries=E30): 
    for v in r.violations: print(v.key, '|', v.msg[:300], v.loc)
    print(r.notes)
for r in cgrules.rule_panicguard({'cli':P},'quick',entries=E30): 
    print(len(r.violations))
    for v in r.violations[:80]: print(v.key)
