#!/usr/bin/env python3
"""Developer tool (never run by a registered check): turn the current violations of a property
into known_findings.json entries, after they have been triaged by hand. Usage:
  tools/propose_findings.py <PID> [key-regex]"""
import json, os, re, sys
V = os.path.dirname(os.path.dirname(os.path.abspath(__file__)))
pid = sys.argv[1]
pat = re.compile(sys.argv[2]) if len(sys.argv) > 2 else None
WHAT = [
    (r"^PANICGUARD:yaml::light::", "deliberate panicking guard assert_depth(depth, MAX_ALIAS_CHAIN_DEPTH=65536): a YAML alias chain longer than that panics instead of returning an error (pinned by the repo's own tests in yaml/light.rs)"),
    (r"^PANICGUARD:", "deliberate panicking depth guard (assert_depth, repo issues #998/#1005/#1018): a value nested past MAX_NESTING_DEPTH=256 / MAX_VALUE_TREE_DEPTH=384 panics instead of returning an error, e.g. `succinctly jq tojson` on 300 nested arrays, `jq '[.[]]'`, `jq tostream`, `jq '[..]'` on 5000 nested arrays, or `reduce range(500) as $i (0;[.])|tojson` -> exit 101 'nesting depth exceeds limit'; turning ~40 asserts into errors is not a small patch"),
    (r"^REC:jq::eval::collect_recursive", "library jq::eval with `..` on a JsonIndex of 200000 nested arrays recurses once per level with no guard: stack overflow, SIGABRT (confirmed with a scratch integration test)"),
    (r"^REC:jq::eval::set_value_at_path", "`null | setpath([range(100000)]; 1)` recurses once per path element with no guard: stack overflow, SIGABRT"),
    (r"^REC:json::light::stream_json_as_yaml", "JsonCursor::stream_yaml (DocumentCursor) on 200000 nested arrays recurses once per level with no guard: stack overflow, SIGABRT (confirmed with a scratch integration test)"),
]
vio = json.load(open(os.path.join(V, "evidence", "%s.violations.json" % pid)))
kf = json.load(open(os.path.join(V, "known_findings.json")))
have = {(k["property"], k["key"]) for k in kf["findings"]}
for v in vio:
    if pat and not pat.search(v["key"]):
        continue
    what = None
    for rx, w in WHAT:
        if re.search(rx, v["key"]):
            what = w
            break
    if what is None:
        print("NOT TRIAGED:", v["key"])
        continue
    if (pid, v["key"]) not in have:
        kf["findings"].append({"property": pid, "key": v["key"], "what": what})
        print("added", v["key"])
json.dump(kf, open(os.path.join(V, "known_findings.json"), "w"), indent=1)
