import sys,os,glob
sys.path.insert(0,'/verif')
from rules import core
from rules.minimir import *
P=core.Program('cli',sorted(glob.glob('/verif/build/facts/*/cli'))[-1])
I=Interp(P)
def S(b): return Slice(list(b),0,len(b))
for data in [b'hello', b'a\xc3\xa9z', b'a\xc3', b'\xf0\x8f\x98\x80', b'a'*31+b'\xc3'+b'z'*32, "日本語".encode()]:
    for fn in ['text::utf8::validate_utf8_scalar','text::utf8::broadword::validate_utf8_broadword','text::utf8::simd_x86::validate_utf8_avx2','text::utf8::simd_x86::validate_utf8_simd']:
        try:
            print(fn.split('::')[-1], data[:8], I.call(fn,[S(data)]), I.steps)
        except Exception as e:
            print(fn, data[:8], 'EXC', type(e).__name__, e)
    try:
        print('json', I.call('json::validate::validate',[S(b'"'+data+b'"')]), I.steps)
    except Exception as e: print('json EXC',type(e).__name__,e)
