import sys,os,glob,time
sys.path.insert(0,'/verif')
from rules import core, linesrules
from rules import facts as F
d,_=F.ensure_facts(['cli'])
P=core.Program('cli',d['cli'])
for rule in (linesrules.rule_line_break_class, linesrules.rule_cmp_consistency):
    for r in rule({'cli':P},'quick'):
        for v in r.violations: print(v.key,'|',v.msg[:300], v.loc)
        for i in r.instances: print(i)
