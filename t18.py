import sys,os,glob,time
sys.path.insert(0,'/verif')
from rules import core, dsvtab
P=core.Program('cli',sorted(glob.glob('/verif/build/facts/*/cli'))[-1])
t=time.time()
for r in dsvtab.rule_dsv({'cli':P},'quick'):
    for v in r.violations: print(v.key,'|',v.msg)
    print(r.instances, time.time()-t)
