#!/usr/bin/env python3
"""Regenerate MANIFEST.json from rules/props.py (claimed checks) and the n/a table below."""
import json
import os
import sys

sys.path.insert(0, os.path.dirname(os.path.abspath(__file__)))
from rules import props  # noqa: E402

NA = {
    "C24": "the oracle is an external binary's (jq 1.7.1) behaviour, not present as source; static analysis of one implementation cannot compare it with another",
}


def main():
    with open(os.path.join(os.path.dirname(os.path.abspath(__file__)), "properties.jsonl")) as fh:
        pids = [json.loads(l)["id"] for l in fh if l.strip()]
    checks = []
    na = []
    for pid in pids:
        r = props.REGISTRY.get(pid)
        if r is None:
            reason = NA.get(pid) or "static check for this property is not built in this revision of /verif (see DESIGN.md §4); not claimed until it is"
            na.append({"property_id": pid, "reason": reason})
            continue
        checks.append(
            {
                "property_id": pid,
                "quick_cmd": "./check %s --tier quick" % pid,
                "thorough_cmd": "./check %s --tier thorough" % pid,
                "evidence_file": "/verif/evidence/%s.json" % pid,
                "replay_cmd_template": "./check %s --replay {path}" % pid,
                "engine": "mirfacts+rules",
                "level_claimed": {
                    "category": r["level"],
                    "text": r["explanation"],
                    "design_ref": r.get("design_ref") or "DESIGN.md §4 %s" % pid,
                },
                "level_note": r.get("note")
                or "Trusted: rustc nightly front end/MIR/const-eval/callee resolution; the mirfacts serialiser; the rule implementations and their hand-confirmed instance tables; the specification tables transcribed from RFC 8259 / Unicode / YAML 1.2. Decides the named structural clauses (necessary conditions), not the behavioural property whole; x86_64 configurations only.",
                "technique": r.get("technique") or "static analysis over rustc MIR facts",
            }
        )
    man = {
        "version": 1,
        "setup_cmd": "./setup.sh",
        "hooks": {
            "guard": "succinctly_verif",
            "enable": "none needed: the checks read /repo's MIR through a rustc_private driver (RUSTC_WORKSPACE_WRAPPER) and require no instrumentation; the guard name is reserved and guards no source change",
            "baseline_off_cmd": "cd /repo && cargo nextest run --workspace --no-fail-fast --offline || cargo test --workspace --no-fail-fast --offline",
            "source_commits": [],
            "add_only": True,
        },
        "engines": [
            {"name": "mirfacts", "path": "/verif/mirfacts", "kind_free_text": "rustc_private driver (nightly) dumping MIR CFGs, resolved callees, target features, const-evaluated tables, ADT layouts per cargo configuration", "serves_properties": [c["property_id"] for c in checks]},
            {"name": "rules", "path": "/verif/rules", "kind_free_text": "Python analyses over the facts: call graph/SCC, dominators with constant-edge pruning, must-dataflow (T1), field write-set dataflow (ATOMIC), taint (ALLOC), finite-domain fragment evaluation (CLASS/CASCADE/TABLE), layout/width arithmetic", "serves_properties": [c["property_id"] for c in checks]},
        ],
        "checks": checks,
        "not_applicable": na,
        "notes": "Static analysis only. Every check re-extracts facts from /repo's current working tree when its tree hash changed (cargo +nightly check with the mirfacts wrapper; fingerprints of the workspace member are dropped so the wrapper always runs). Known findings: /verif/known_findings.json.",
    }
    p = os.path.join(os.path.dirname(os.path.abspath(__file__)), "MANIFEST.json")
    with open(p, "w") as fh:
        json.dump(man, fh, indent=1)
    print("MANIFEST.json: %d checks, %d not_applicable" % (len(checks), len(na)))


if __name__ == "__main__":
    main()
