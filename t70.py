import sys,time,json
sys.path.insert(0,'/verif')
from rules import core, yamlload, yamlgen
from rules import facts as F
from rules.minimir import Interp, Slice, Adt, Panic, Unsupported
from rules.stdmodel import StrBuf, tmp_ref
d,_=F.ensure_facts(['cli'])
P=core.Program('cli',d['cli'])
I=Interp(P,max_steps=80000000,max_depth=300)
fam,_=yamlgen.streams(int(sys.argv[1]))
n=0;bad=0
for seed,text,docs in fam:
    if len(docs)!=1: continue
    data=text.encode()
    js=Slice(list(data),0,len(data))
    r=I.call("yaml::index::YamlIndex::build",[js])
    if r.vname!="Ok": continue
    ix=r.fields[0]
    root=I.call("yaml::index::YamlIndex::<W>::root",[tmp_ref(ix),js])
    j1=I.call("yaml::light::YamlCursor::<'a, W>::to_json_document",[tmp_ref(root)])
    for width in (2,):
        out=StrBuf([])
        spec=Adt("jq::document::IndentSpec",0,"IndentSpec",[width,32])
        try:
            res=I.call("yaml::light::YamlCursor::<'a, W>::stream_yaml_document",[tmp_ref(root),tmp_ref(out),spec,0], gen={"Out":"std::string::String"})
        except (Unsupported,Panic) as e:
            print("ERR",seed,repr(e)[:300]); bad+=1; break
        t2=bytes(out.b)
        k2,v2=yamlload.load(I,t2)
        n+=1
        a=json.loads(bytes(j1.b).decode()) 
        b=json.loads(v2) if k2=="json" else ("ERR",str(v2))
        if not yamlload.same(a,b):
            bad+=1
            print("MISMATCH seed",seed,"in",repr(text[:150]),"emitted",repr(t2[:200]),"->",json.dumps(b)[:150],"expected",json.dumps(a)[:150])
    if bad>8: break
print(n,bad)
