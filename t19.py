import sys,os,glob,time
sys.path.insert(0,'/verif')
from rules import core, yamltab
P=core.Program('cli',sorted(glob.glob('/verif/build/facts/*/cli'),key=os.path.getmtime)[-1])
t=time.time()
for r in yamltab.rule_yaml_kernels({'cli':P},'quick'):
    for v in r.violations: print(v.key,'|',v.msg[:400])
    print(len(r.instances), r.cells, time.time()-t)
