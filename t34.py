import sys,os,glob,time
sys.path.insert(0,'/verif')
from rules import core, cgrules
from rules import facts as F
d,_=F.ensure_facts(['cli'])
P=core.Program('cli',d['cli'])
fns=[("jq::eval_generic::eval_single", r"jq::expr::Expr\b"),("jq::eval_generic::eval_builtin", r"jq::expr::Builtin\b")]
for r in cgrules.rule_fallback({'cli':P},'quick',functions=fns):
    for v in r.violations: print(v.key,'|',v.msg[:300], v.loc)
    for i in r.instances: print(i)
