//! mirfacts — rustc_private fact extractor for the /verif static checks.
//!
//! Used as RUSTC_WORKSPACE_WRAPPER: argv[1] is the real rustc path (dropped).
//! For every workspace crate compiled, writes one JSON fact file into
//! $MIRFACTS_OUT/<crate>-<lib|bin>.json (a single write per process).
#![feature(rustc_private)]
#![allow(clippy::all)]

extern crate rustc_abi;
extern crate rustc_driver;
extern crate rustc_hir;
extern crate rustc_interface;
extern crate rustc_middle;
extern crate rustc_session;
extern crate rustc_span;

use rustc_hir::def::DefKind;
use rustc_hir::def_id::{DefId, LocalDefId};
use rustc_middle::mir::{
    self, AggregateKind, BasicBlock, BinOp, Body, BorrowKind, CastKind, Const, ConstValue,
    Operand, Place, ProjectionElem, Rvalue, StatementKind, TerminatorKind, UnOp,
};
use rustc_middle::ty::{self, Instance, Ty, TyCtxt, TypeVisitableExt, TypingEnv};
use std::fmt::Write as _;

struct Cb;

impl rustc_driver::Callbacks for Cb {
    fn after_analysis<'tcx>(
        &mut self,
        _c: &rustc_interface::interface::Compiler,
        tcx: TyCtxt<'tcx>,
    ) -> rustc_driver::Compilation {
        if let Ok(out) = std::env::var("MIRFACTS_OUT") {
            dump(tcx, &out);
        }
        rustc_driver::Compilation::Continue
    }
}

fn main() {
    let mut args: Vec<String> = std::env::args().collect();
    // RUSTC_WORKSPACE_WRAPPER: argv[1] is the path of the real rustc.
    if args.len() > 1 && (args[1].ends_with("rustc") || args[1].contains("/rustc")) {
        args.remove(1);
    }
    let mut feats: Vec<String> = Vec::new();
    let mut i = 0;
    while i < args.len() {
        if args[i] == "--cfg" && i + 1 < args.len() {
            let v = &args[i + 1];
            if let Some(rest) = v.strip_prefix("feature=") {
                feats.push(rest.trim_matches('"').to_string());
            }
        }
        i += 1;
    }
    feats.sort();
    let _ = FEATURES.set(feats);
    rustc_driver::run_compiler(&args, &mut Cb);
}

static FEATURES: std::sync::OnceLock<Vec<String>> = std::sync::OnceLock::new();

// ---------------------------------------------------------------- JSON helpers

fn jstr(s: &str) -> String {
    let mut o = String::with_capacity(s.len() + 2);
    o.push('"');
    for c in s.chars() {
        match c {
            '"' => o.push_str("\\\""),
            '\\' => o.push_str("\\\\"),
            '\n' => o.push_str("\\n"),
            '\r' => o.push_str("\\r"),
            '\t' => o.push_str("\\t"),
            c if (c as u32) < 0x20 => {
                let _ = write!(o, "\\u{:04x}", c as u32);
            }
            c => o.push(c),
        }
    }
    o.push('"');
    o
}

fn jlist(items: &[String]) -> String {
    let mut o = String::from("[");
    for (i, it) in items.iter().enumerate() {
        if i > 0 {
            o.push(',');
        }
        o.push_str(it);
    }
    o.push(']');
    o
}

fn hex(bytes: &[u8]) -> String {
    let mut o = String::with_capacity(bytes.len() * 2);
    for b in bytes {
        let _ = write!(o, "{:02x}", b);
    }
    o
}

// ---------------------------------------------------------------- context

struct Cx<'tcx> {
    tcx: TyCtxt<'tcx>,
}

fn path_of(tcx: TyCtxt<'_>, did: DefId) -> String {
    // Items of the workspace library seen from the bin crate must print with their real
    // definition path, not the shortest visible re-export.
    if !did.is_local() && tcx.crate_name(did.krate).as_str() == "succinctly" {
        return ty::print::with_no_trimmed_paths!(ty::print::with_no_visible_paths!({
            tcx.def_path_str(did)
        }));
    }
    ty::print::with_no_trimmed_paths!({
        tcx.def_path_str(did)
    })
}

fn ty_str<'tcx>(t: Ty<'tcx>) -> String {
    ty::print::with_no_trimmed_paths!(format!("{}", t))
}

impl<'tcx> Cx<'tcx> {
    fn place(&self, body: &Body<'tcx>, p: &Place<'tcx>) -> String {
        let tcx = self.tcx;
        let mut projs: Vec<String> = Vec::new();
        let mut pty = mir::PlaceTy::from_ty(body.local_decls[p.local].ty);
        for elem in p.projection.iter() {
            let s = match elem {
                ProjectionElem::Deref => "\"*\"".to_string(),
                ProjectionElem::Field(f, _) => {
                    let mut name = format!("{}", f.index());
                    match pty.ty.kind() {
                        ty::Adt(adt, _) => {
                            let v = match pty.variant_index {
                                Some(v) => Some(v),
                                None => {
                                    if adt.is_enum() {
                                        None
                                    } else {
                                        Some(rustc_abi::FIRST_VARIANT)
                                    }
                                }
                            };
                            if let Some(v) = v {
                                if let Some(fd) = adt.variant(v).fields.get(f) {
                                    name = fd.name.to_string();
                                }
                            }
                        }
                        _ => {}
                    }
                    format!("[\"f\",{},{}]", f.index(), jstr(&name))
                }
                ProjectionElem::Index(l) => format!("[\"i\",{}]", l.index()),
                ProjectionElem::ConstantIndex { offset, from_end, .. } => {
                    format!("[\"c\",{},{}]", offset, from_end)
                }
                ProjectionElem::Subslice { from, to, from_end } => {
                    format!("[\"s\",{},{},{}]", from, to, from_end)
                }
                ProjectionElem::Downcast(name, vi) => {
                    let n = match name {
                        Some(s) => s.to_string(),
                        None => match pty.ty.kind() {
                            ty::Adt(adt, _) => adt.variant(vi).name.to_string(),
                            _ => format!("{}", vi.index()),
                        },
                    };
                    format!("[\"d\",{},{}]", jstr(&n), vi.index())
                }
                _ => "\"?\"".to_string(),
            };
            projs.push(s);
            pty = pty.projection_ty(tcx, elem);
        }
        format!("[{},{}]", p.local.index(), jlist(&projs))
    }

    fn read_alloc_bytes(&self, alloc: &mir::interpret::Allocation, off: usize, len: usize) -> Option<Vec<u8>> {
        if off + len > alloc.len() {
            return None;
        }
        let bytes = alloc.inspect_with_uninit_and_ptr_outside_interpreter(off..off + len);
        Some(bytes.to_vec())
    }

    /// Read a struct-typed constant (all fields primitive scalars) out of an allocation using
    /// the type's layout; returns `"adt":{...}` JSON or None.
    fn struct_const(&self, alloc: &mir::interpret::Allocation, base: usize, t: Ty<'tcx>) -> Option<String> {
        let tcx = self.tcx;
        let adt = match t.kind() {
            ty::Adt(adt, _) if adt.is_struct() => adt,
            _ => return None,
        };
        let gargs = match t.kind() {
            ty::Adt(_, g) => g,
            _ => return None,
        };
        let env = TypingEnv::fully_monomorphized();
        let layout = tcx.layout_of(env.as_query_input(t)).ok()?;
        let v = adt.non_enum_variant();
        let mut fields: Vec<String> = Vec::new();
        for (i, f) in v.fields.iter().enumerate() {
            let fty = f.ty(tcx, gargs);
            let sz = prim_size(fty)?;
            let off = layout.fields.offset(i).bytes() as usize;
            let b = self.read_alloc_bytes(alloc, base + off, sz)?;
            let mut val: u128 = 0;
            for (j, x) in b.iter().enumerate() {
                val |= (*x as u128) << (8 * j);
            }
            let mut sv = String::new();
            if fty.is_signed() {
                let shift = 128 - 8 * sz as u32;
                let s = ((val << shift) as i128) >> shift;
                sv = format!(",\"sv\":{}", s);
            }
            fields.push(format!("{{\"name\":{},\"ty\":{},\"v\":{}{}}}", jstr(&f.name.to_string()), jstr(&ty_str(fty)), val, sv));
        }
        Some(format!("\"adt\":{{\"path\":{},\"fields\":{}}}", jstr(&path_of(tcx, adt.did())), jlist(&fields)))
    }

    /// A reference value stored inside an allocation at `off` (thin or fat pointer): describe its referent.
    fn read_ref_in_alloc(&self, alloc: &mir::interpret::Allocation, off: usize, ref_ty: Ty<'tcx>, pointee: Ty<'tcx>, depth: usize) -> Option<String> {
        let tcx = self.tcx;
        if matches!(pointee.kind(), ty::Str | ty::Slice(_)) {
            // an empty `&str` / `&[T]` may point nowhere (no provenance): its value is still known
            if let Some(lraw) = self.read_alloc_bytes(alloc, off + 8, 8) {
                if lraw.iter().all(|x| *x == 0) {
                    return Some(if matches!(pointee.kind(), ty::Str) {
                        format!("\"ty\":{},\"str\":\"\"", jstr(&ty_str(ref_ty)))
                    } else {
                        format!("\"ty\":{},\"bytes\":\"\",\"esz\":1", jstr(&ty_str(ref_ty)))
                    });
                }
            }
        }
        let prov = alloc.provenance().get_ptr(rustc_abi::Size::from_bytes(off as u64))?;
        let raw = self.read_alloc_bytes(alloc, off, 8)?;
        let mut poff: u64 = 0;
        for (j, x) in raw.iter().enumerate() {
            poff |= (*x as u64) << (8 * j);
        }
        let aid = prov.alloc_id();
        let target = match tcx.try_get_global_alloc(aid)? {
            mir::interpret::GlobalAlloc::Memory(a) => a,
            _ => return None,
        };
        let tinner = target.inner();
        match pointee.kind() {
            ty::Str | ty::Slice(_) => {
                let lraw = self.read_alloc_bytes(alloc, off + 8, 8)?;
                let mut len: u64 = 0;
                for (j, x) in lraw.iter().enumerate() {
                    len |= (*x as u64) << (8 * j);
                }
                let esz = match pointee.kind() {
                    ty::Str => 1,
                    ty::Slice(e) => prim_size(*e)?,
                    _ => return None,
                };
                let b = self.read_alloc_bytes(tinner, poff as usize, (len as usize) * esz)?;
                if matches!(pointee.kind(), ty::Str) {
                    let st = std::str::from_utf8(&b).ok()?;
                    Some(format!("\"ty\":{},\"str\":{}", jstr(&ty_str(ref_ty)), jstr(st)))
                } else {
                    Some(format!("\"ty\":{},\"bytes\":{},\"esz\":{}", jstr(&ty_str(ref_ty)), jstr(&hex(&b)), esz))
                }
            }
            _ => {
                let cv = ConstValue::Indirect { alloc_id: aid, offset: rustc_abi::Size::from_bytes(poff) };
                let nested = self.const_value_d(cv, pointee, depth + 1);
                if nested.starts_with("\"v\"") || nested.starts_with("\"adt2\"") || nested.starts_with("\"adt\"") || nested.starts_with("\"bytes\"") || nested.starts_with("\"list\"") {
                    Some(format!("\"ty\":{},\"ref\":{{{}}}", jstr(&ty_str(ref_ty)), nested))
                } else {
                    None
                }
            }
        }
    }

    /// Describe an evaluated constant value of type `t`.
    fn const_value(&self, cv: ConstValue, t: Ty<'tcx>) -> String {
        self.const_value_d(cv, t, 0)
    }

    fn const_value_d(&self, cv: ConstValue, t: Ty<'tcx>, depth: usize) -> String {
        let tcx = self.tcx;
        // enums / structs with non-scalar fields: destructure through the compiler
        if depth < 4 {
            if let ty::Adt(adt, _) = t.kind() {
                if (adt.is_enum() || adt.is_struct()) && !adt.is_box() && !matches!(cv, ConstValue::Scalar(mir::interpret::Scalar::Int(_)) if adt.is_struct()) {
                    if let Some(d) = tcx.try_destructure_mir_constant_for_user_output(cv, t) {
                        let vi = d.variant.map(|v| v.index()).unwrap_or(0);
                        let vname = adt.variants().iter().nth(vi).map(|v| v.name.to_string()).unwrap_or_default();
                        let fs: Vec<String> = d.fields.iter().map(|(fcv, fty)| format!("{{\"ty\":{},{}}}", jstr(&ty_str(*fty)), self.const_value_d(*fcv, *fty, depth + 1))).collect();
                        return format!("\"adt2\":{{\"path\":{},\"vi\":{},\"vname\":{},\"fields\":{}}}", jstr(&path_of(tcx, adt.did())), vi, jstr(&vname), jlist(&fs));
                    }
                }
            }
        }
        // tuples, and arrays whose elements are not plain integers: element-wise through the compiler
        if depth < 4 {
            let structured = match t.kind() {
                ty::Tuple(fs) => !fs.is_empty(),
                ty::Array(..) => int_array_shape(tcx, t).is_none(),
                _ => false,
            };
            if structured && !matches!(cv, ConstValue::ZeroSized) {
                if let Some(d) = tcx.try_destructure_mir_constant_for_user_output(cv, t) {
                    let fs: Vec<String> = d.fields.iter().map(|(fcv, fty)| format!("{{\"ty\":{},{}}}", jstr(&ty_str(*fty)), self.const_value_d(*fcv, *fty, depth + 1))).collect();
                    return format!("\"list\":{}", jlist(&fs));
                }
            }
        }
        match cv {
            ConstValue::Scalar(mir::interpret::Scalar::Int(si)) => {
                let size = si.size();
                let bits = si.to_bits(size);
                let mut extra = String::new();
                if t.is_signed() {
                    let sv = size.sign_extend(bits) as i128;
                    let _ = write!(extra, ",\"sv\":{}", sv);
                }
                if t.is_char() {
                    if let Some(c) = char::from_u32(bits as u32) {
                        let _ = write!(extra, ",\"ch\":{}", jstr(&c.to_string()));
                    }
                }
                format!("\"v\":{}{}", bits, extra)
            }
            ConstValue::Scalar(mir::interpret::Scalar::Ptr(ptr, _)) => {
                // pointer to an allocation: try to read pointee bytes for &[int; N] / &str-like
                let (prov, off) = ptr.into_raw_parts();
                let alloc_id = prov.alloc_id();
                match tcx.try_get_global_alloc(alloc_id) {
                    Some(mir::interpret::GlobalAlloc::Memory(a)) => {
                        let inner = a.inner();
                        if let Some(pt) = t.builtin_deref(true) {
                            // pointee is itself a reference (`&&str`, `&&[u8]`, `&&T`): follow the stored pointer
                            if depth < 4 {
                                if let Some(pt2) = pt.builtin_deref(true) {
                                    if let Some(nested) = self.read_ref_in_alloc(inner, off.bytes() as usize, pt, pt2, depth) {
                                        return format!("\"ref\":{{{}}}", nested);
                                    }
                                }
                            }
                            // pointee is an array of references (`&[&str; N]`, `&[&[u8]; N]`, `&[&T; N]`): follow each element
                            if depth < 4 {
                                if let ty::Array(elem_ty, n) = pt.kind() {
                                    if let (Some(inner_t), Some(n)) = (elem_ty.builtin_deref(true), n.try_to_target_usize(tcx)) {
                                        let esz = match inner_t.kind() {
                                            ty::Str | ty::Slice(_) => 16usize,
                                            _ => 8usize,
                                        };
                                        let mut items: Vec<String> = Vec::new();
                                        let mut ok = true;
                                        for i in 0..(n as usize) {
                                            match self.read_ref_in_alloc(inner, off.bytes() as usize + i * esz, *elem_ty, inner_t, depth) {
                                                Some(sx) => items.push(format!("{{{}}}", sx)),
                                                None => {
                                                    ok = false;
                                                    break;
                                                }
                                            }
                                        }
                                        if ok {
                                            return format!("\"refarr\":{}", jlist(&items));
                                        }
                                    }
                                }
                            }
                            if let Some(sc) = self.struct_const(inner, off.bytes() as usize, pt) {
                                return sc;
                            }
                            // generic pointee: integers and (nested) ADTs, decoded through the allocation
                            if depth < 4 && (prim_size(pt).is_some() || matches!(pt.kind(), ty::Adt(..) | ty::Tuple(..) | ty::Array(..))) && !matches!(pt.kind(), ty::Adt(a, _) if a.is_box()) && !(matches!(pt.kind(), ty::Array(..)) && int_array_shape(tcx, pt).is_some()) {
                                let inner_cv = ConstValue::Indirect { alloc_id, offset: off };
                                let nested = self.const_value_d(inner_cv, pt, depth + 1);
                                if nested.starts_with("\"v\"") || nested.starts_with("\"adt2\"") || nested.starts_with("\"list\"") {
                                    return format!("\"ref\":{{{}}}", nested);
                                }
                            }
                        }
                        let len = inner.len().saturating_sub(off.bytes() as usize);
                        if len <= 65536 {
                            if let Some(b) = self.read_alloc_bytes(inner, off.bytes() as usize, len) {
                                return format!("\"ptr_bytes\":{}", jstr(&hex(&b)));
                            }
                        }
                        "\"ptr\":true".to_string()
                    }
                    Some(mir::interpret::GlobalAlloc::Static(did)) => {
                        format!("\"static\":{}", jstr(&path_of(tcx, did)))
                    }
                    Some(mir::interpret::GlobalAlloc::Function { instance }) => {
                        format!("\"fnptr\":{}", jstr(&path_of(tcx, instance.def_id())))
                    }
                    _ => "\"ptr\":true".to_string(),
                }
            }
            ConstValue::ZeroSized => "\"zst\":true".to_string(),
            ConstValue::Slice { alloc_id, meta } => {
                match tcx.try_get_global_alloc(alloc_id) {
                    Some(mir::interpret::GlobalAlloc::Memory(a)) => {
                        let inner = a.inner();
                        // meta is element count; element size from type
                        let esz: usize = match t.builtin_deref(true) {
                            Some(inner_t) => match inner_t.kind() {
                                ty::Str => 1,
                                ty::Slice(e) => prim_size(*e).unwrap_or(0),
                                _ => 0,
                            },
                            None => 0,
                        };
                        if esz == 0 {
                            return "\"slice\":true".to_string();
                        }
                        let len = (meta as usize) * esz;
                        match self.read_alloc_bytes(inner, 0, len) {
                            Some(b) => {
                                if let (true, Ok(s)) = (
                                    matches!(t.builtin_deref(true).map(|x| x.kind()), Some(ty::Str)),
                                    std::str::from_utf8(&b),
                                ) {
                                    format!("\"str\":{}", jstr(s))
                                } else {
                                    format!("\"bytes\":{},\"esz\":{}", jstr(&hex(&b)), esz)
                                }
                            }
                            None => "\"slice\":true".to_string(),
                        }
                    }
                    _ => "\"slice\":true".to_string(),
                }
            }
            ConstValue::Indirect { alloc_id, offset } => {
                match tcx.try_get_global_alloc(alloc_id) {
                    Some(mir::interpret::GlobalAlloc::Memory(a)) => {
                        let inner = a.inner();
                        if let Some(sc) = self.struct_const(inner, offset.bytes() as usize, t) {
                            return sc;
                        }
                        // a reference stored in memory (a `&str` / `&T` field of a destructured constant)
                        if depth < 6 {
                            if let Some(pt) = t.builtin_deref(true) {
                                if let Some(sx) = self.read_ref_in_alloc(inner, offset.bytes() as usize, t, pt, depth) {
                                    // read_ref_in_alloc leads with the "ty" the caller has already written
                                    if let Some(pos) = sx.find("\",\"") {
                                        return sx[pos + 2..].to_string();
                                    }
                                }
                            }
                        }
                        if let Some(sz) = prim_size(t) {
                            if let Some(b) = self.read_alloc_bytes(inner, offset.bytes() as usize, sz) {
                                let mut val: u128 = 0;
                                for (j, x) in b.iter().enumerate() {
                                    val |= (*x as u128) << (8 * j);
                                }
                                let mut sv = String::new();
                                if t.is_signed() {
                                    let shift = 128 - 8 * sz as u32;
                                    let s = ((val << shift) as i128) >> shift;
                                    sv = format!(",\"sv\":{}", s);
                                }
                                return format!("\"v\":{}{}", val, sv);
                            }
                        }
                        if let Some((n, esz)) = int_array_shape(tcx, t) {
                            let len = n * esz;
                            if let Some(b) = self.read_alloc_bytes(inner, offset.bytes() as usize, len) {
                                return format!("\"bytes\":{},\"esz\":{}", jstr(&hex(&b)), esz);
                            }
                        }
                        "\"indirect\":true".to_string()
                    }
                    _ => "\"indirect\":true".to_string(),
                }
            }
        }
    }

    fn constant(&self, owner: DefId, c: &mir::ConstOperand<'tcx>) -> String {
        let tcx = self.tcx;
        let t = c.const_.ty();
        let mut parts: Vec<String> = vec![format!("\"ty\":{}", jstr(&ty_str(t)))];
        match t.kind() {
            ty::FnDef(did, gargs) => {
                parts.push(format!("\"fn\":{}", jstr(&path_of(tcx, *did))));
                let g: Vec<String> = gargs.iter().map(|a| jstr(&ty::print::with_no_trimmed_paths!(format!("{}", a)))).collect();
                parts.push(format!("\"g\":{}", jlist(&g)));
                let env = TypingEnv::post_analysis(tcx, owner);
                if let Ok(Some(inst)) = Instance::try_resolve(tcx, env, *did, gargs) {
                    let rd = inst.def_id();
                    if rd != *did {
                        parts.push(format!("\"r\":{}", jstr(&path_of(tcx, rd))));
                    }
                    parts.push(format!("\"rl\":{}", rd.is_local()));
                    if !rd.is_local() && matches!(tcx.def_kind(rd), DefKind::Fn | DefKind::AssocFn) {
                        let attrs = tcx.codegen_fn_attrs(rd);
                        if !attrs.target_features.is_empty() {
                            let tf: Vec<String> = attrs.target_features.iter().map(|f| jstr(f.name.as_str())).collect();
                            parts.push(format!("\"ctf\":{}", jlist(&tf)));
                        }
                    }
                }
                parts.push(format!("\"l\":{}", did.is_local()));
            }
            _ => {
                // const generic parameter: record its name so a caller's generic args can bind it
                if let Const::Ty(_, ct) = c.const_ {
                    if let ty::ConstKind::Param(p) = ct.kind() {
                        parts.push(format!("\"param\":{}", jstr(p.name.as_str())));
                    }
                }
                // name of the constant item if unevaluated
                if let Const::Unevaluated(uv, _) = c.const_ {
                    parts.push(format!("\"item\":{}", jstr(&path_of(tcx, uv.def))));
                    if let Some(pi) = uv.promoted {
                        parts.push("\"promoted\":true".to_string());
                        parts.push(format!("\"pidx\":{}", pi.index()));
                    }
                }
                let env = TypingEnv::post_analysis(tcx, owner);
                let simple = t.is_integral() || t.is_bool() || t.is_char() || t.is_floating_point()
                    || t.is_ref() || t.is_raw_ptr() || matches!(t.kind(), ty::Array(..) | ty::Adt(..) | ty::Tuple(..));
                if simple && !c.const_.has_non_region_param() {
                    if let Ok(cv) = c.const_.eval(tcx, env, c.span) {
                        parts.push(self.const_value(cv, t));
                    }
                }
            }
        }
        format!("[\"k\",{{{}}}]", parts.join(","))
    }

    fn operand(&self, owner: DefId, body: &Body<'tcx>, o: &Operand<'tcx>) -> String {
        match o {
            Operand::Copy(p) => format!("[\"c\",{}]", self.place(body, p)),
            Operand::Move(p) => format!("[\"m\",{}]", self.place(body, p)),
            Operand::Constant(c) => self.constant(owner, c),
            #[allow(unreachable_patterns)]
            _ => "[\"?\"]".to_string(),
        }
    }

    fn rvalue(&self, owner: DefId, body: &Body<'tcx>, rv: &Rvalue<'tcx>) -> String {
        let tcx = self.tcx;
        match rv {
            Rvalue::Use(o, ..) => format!("[\"use\",{}]", self.operand(owner, body, o)),
            Rvalue::Repeat(o, n) => {
                let env = TypingEnv::post_analysis(tcx, owner);
                let cnt = n.try_to_target_usize(tcx).or_else(|| {
                    let _ = env;
                    None
                });
                format!("[\"rep\",{},{}]", self.operand(owner, body, o), cnt.map(|x| x.to_string()).unwrap_or("null".into()))
            }
            Rvalue::Ref(_, bk, p) => {
                let k = match bk {
                    BorrowKind::Shared => "shared",
                    BorrowKind::Fake(_) => "fake",
                    BorrowKind::Mut { .. } => "mut",
                };
                format!("[\"ref\",\"{}\",{}]", k, self.place(body, p))
            }
            Rvalue::RawPtr(k, p) => format!("[\"ptr\",{},{}]", jstr(&format!("{:?}", k)), self.place(body, p)),
            Rvalue::Cast(k, o, t) => {
                let kn = match k {
                    CastKind::IntToInt => "IntToInt".to_string(),
                    CastKind::FloatToInt => "FloatToInt".to_string(),
                    CastKind::IntToFloat => "IntToFloat".to_string(),
                    CastKind::FloatToFloat => "FloatToFloat".to_string(),
                    CastKind::PtrToPtr => "PtrToPtr".to_string(),
                    CastKind::Transmute => "Transmute".to_string(),
                    other => format!("{:?}", other),
                };
                format!("[\"cast\",{},{},{}]", jstr(&kn), self.operand(owner, body, o), jstr(&ty_str(*t)))
            }
            Rvalue::BinaryOp(op, ab) => {
                let (a, b) = &**ab;
                format!("[\"bin\",{},{},{}]", jstr(binop_name(*op)), self.operand(owner, body, a), self.operand(owner, body, b))
            }
            Rvalue::UnaryOp(op, a) => {
                let n = match op {
                    UnOp::Not => "Not",
                    UnOp::Neg => "Neg",
                    UnOp::PtrMetadata => "PtrMetadata",
                };
                format!("[\"un\",\"{}\",{}]", n, self.operand(owner, body, a))
            }
            Rvalue::Discriminant(p) => format!("[\"disc\",{}]", self.place(body, p)),
            Rvalue::Aggregate(kind, ops) => {
                let k = match &**kind {
                    AggregateKind::Array(t) => format!("{{\"k\":\"array\",\"ty\":{}}}", jstr(&ty_str(*t))),
                    AggregateKind::Tuple => "{\"k\":\"tuple\"}".to_string(),
                    AggregateKind::Adt(did, vi, _, _, active) => {
                        let adt = tcx.adt_def(*did);
                        let v = adt.variant(*vi);
                        let fields: Vec<String> = match active {
                            Some(fi) => vec![jstr(&v.fields[*fi].name.to_string())],
                            None => v.fields.iter().map(|f| jstr(&f.name.to_string())).collect(),
                        };
                        format!(
                            "{{\"k\":\"adt\",\"path\":{},\"variant\":{},\"vi\":{},\"fields\":{}}}",
                            jstr(&path_of(tcx, *did)),
                            jstr(&v.name.to_string()),
                            vi.index(),
                            jlist(&fields)
                        )
                    }
                    AggregateKind::Closure(did, _) => format!("{{\"k\":\"closure\",\"path\":{}}}", jstr(&path_of(tcx, *did))),
                    AggregateKind::Coroutine(did, _) => format!("{{\"k\":\"coroutine\",\"path\":{}}}", jstr(&path_of(tcx, *did))),
                    AggregateKind::CoroutineClosure(did, _) => format!("{{\"k\":\"closure\",\"path\":{}}}", jstr(&path_of(tcx, *did))),
                    AggregateKind::RawPtr(..) => "{\"k\":\"rawptr\"}".to_string(),
                };
                let os: Vec<String> = ops.iter().map(|o| self.operand(owner, body, o)).collect();
                format!("[\"agg\",{},{}]", k, jlist(&os))
            }
            Rvalue::CopyForDeref(p) => format!("[\"use\",[\"c\",{}]]", self.place(body, p)),
            Rvalue::ThreadLocalRef(did) => format!("[\"tlr\",{}]", jstr(&path_of(tcx, *did))),
            other => format!("[\"other\",{}]", jstr(&format!("{:?}", other))),
        }
    }

    fn span_line(&self, sp: rustc_span::Span) -> (usize, bool) {
        let sm = self.tcx.sess.source_map();
        let exp = sp.from_expansion();
        let sp2 = sp.source_callsite();
        let lo = sm.lookup_char_pos(sp2.lo());
        (lo.line, exp)
    }

    fn body(&self, owner: DefId, body: &Body<'tcx>) -> String {
        let mut blocks: Vec<String> = Vec::new();
        for (_bb, data) in body.basic_blocks.iter_enumerated() {
            let mut stmts: Vec<String> = Vec::new();
            for st in &data.statements {
                let (line, exp) = self.span_line(st.source_info.span);
                match &st.kind {
                    StatementKind::Assign(b) => {
                        let (p, rv) = &**b;
                        stmts.push(format!(
                            "[\"a\",{},{},{},{}]",
                            self.place(body, p),
                            self.rvalue(owner, body, rv),
                            line,
                            exp as u8
                        ));
                    }
                    StatementKind::SetDiscriminant { place, variant_index } => {
                        stmts.push(format!("[\"sd\",{},{},{},{}]", self.place(body, place), variant_index.index(), line, exp as u8));
                    }
                    StatementKind::Intrinsic(i) => {
                        stmts.push(format!("[\"intr\",{},{},{}]", jstr(&format!("{:?}", i)), line, exp as u8));
                    }
                    _ => {}
                }
            }
            let term = data.terminator();
            let (line, exp) = self.span_line(term.source_info.span);
            let t = match &term.kind {
                TerminatorKind::Goto { target } => format!("[\"goto\",{}]", target.index()),
                TerminatorKind::SwitchInt { discr, targets } => {
                    let mut arms: Vec<String> = Vec::new();
                    for (v, t) in targets.iter() {
                        arms.push(format!("[{},{}]", v, t.index()));
                    }
                    let dty = discr.ty(&body.local_decls, self.tcx);
                    format!(
                        "[\"switch\",{},{},{},{}]",
                        self.operand(owner, body, discr),
                        jlist(&arms),
                        targets.otherwise().index(),
                        jstr(&ty_str(dty))
                    )
                }
                TerminatorKind::Return => "[\"ret\"]".to_string(),
                TerminatorKind::Unreachable => "[\"unreach\"]".to_string(),
                TerminatorKind::UnwindResume => "[\"resume\"]".to_string(),
                TerminatorKind::UnwindTerminate(_) => "[\"abort\"]".to_string(),
                TerminatorKind::Drop { place, target, .. } => {
                    format!("[\"drop\",{},{}]", self.place(body, place), target.index())
                }
                TerminatorKind::Call { func, args, destination, target, .. } => {
                    let f = self.operand(owner, body, func);
                    let a: Vec<String> = args.iter().map(|s| self.operand(owner, body, &s.node)).collect();
                    format!(
                        "[\"call\",{},{},{},{}]",
                        f,
                        jlist(&a),
                        self.place(body, destination),
                        target.map(|t: BasicBlock| t.index().to_string()).unwrap_or("null".into())
                    )
                }
                TerminatorKind::TailCall { func, args, .. } => {
                    let f = self.operand(owner, body, func);
                    let a: Vec<String> = args.iter().map(|s| self.operand(owner, body, &s.node)).collect();
                    format!("[\"call\",{},{},[0,[]],null]", f, jlist(&a))
                }
                TerminatorKind::Assert { cond, expected, msg, target, .. } => {
                    let kind = format!("{:?}", msg);
                    let kind = kind.split(|c: char| !c.is_alphanumeric()).next().unwrap_or("").to_string();
                    format!(
                        "[\"assert\",{},{},{},{}]",
                        self.operand(owner, body, cond),
                        expected,
                        jstr(&kind),
                        target.index()
                    )
                }
                TerminatorKind::FalseEdge { real_target, .. } => format!("[\"goto\",{}]", real_target.index()),
                TerminatorKind::FalseUnwind { real_target, .. } => format!("[\"goto\",{}]", real_target.index()),
                TerminatorKind::InlineAsm { targets, .. } => {
                    let t: Vec<String> = targets.iter().map(|t| t.index().to_string()).collect();
                    format!("[\"asm\",{}]", jlist(&t))
                }
                other => format!("[\"other\",{}]", jstr(&format!("{:?}", other))),
            };
            blocks.push(format!(
                "{{\"s\":{},\"t\":{},\"l\":{},\"x\":{},\"cu\":{}}}",
                jlist(&stmts),
                t,
                line,
                exp as u8,
                data.is_cleanup as u8
            ));
        }
        jlist(&blocks)
    }
}

fn binop_name(op: BinOp) -> &'static str {
    match op {
        BinOp::Add => "Add",
        BinOp::AddUnchecked => "Add",
        BinOp::AddWithOverflow => "AddWithOverflow",
        BinOp::Sub => "Sub",
        BinOp::SubUnchecked => "Sub",
        BinOp::SubWithOverflow => "SubWithOverflow",
        BinOp::Mul => "Mul",
        BinOp::MulUnchecked => "Mul",
        BinOp::MulWithOverflow => "MulWithOverflow",
        BinOp::Div => "Div",
        BinOp::Rem => "Rem",
        BinOp::BitXor => "BitXor",
        BinOp::BitAnd => "BitAnd",
        BinOp::BitOr => "BitOr",
        BinOp::Shl => "Shl",
        BinOp::ShlUnchecked => "Shl",
        BinOp::Shr => "Shr",
        BinOp::ShrUnchecked => "Shr",
        BinOp::Eq => "Eq",
        BinOp::Lt => "Lt",
        BinOp::Le => "Le",
        BinOp::Ne => "Ne",
        BinOp::Ge => "Ge",
        BinOp::Gt => "Gt",
        BinOp::Cmp => "Cmp",
        BinOp::Offset => "Offset",
    }
}

fn prim_size(t: Ty<'_>) -> Option<usize> {
    use ty::{IntTy::*, UintTy::*};
    Some(match t.kind() {
        ty::Bool => 1,
        ty::Char => 4,
        ty::Int(I8) | ty::Uint(U8) => 1,
        ty::Int(I16) | ty::Uint(U16) => 2,
        ty::Int(I32) | ty::Uint(U32) => 4,
        ty::Int(I64) | ty::Uint(U64) | ty::Int(Isize) | ty::Uint(Usize) => 8,
        ty::Int(I128) | ty::Uint(U128) => 16,
        _ => return None,
    })
}

/// (total element count, element size) for (nested) arrays of primitive ints.
fn int_array_shape<'tcx>(tcx: TyCtxt<'tcx>, t: Ty<'tcx>) -> Option<(usize, usize)> {
    match t.kind() {
        ty::Array(e, n) => {
            let n = n.try_to_target_usize(tcx)? as usize;
            if let Some(sz) = prim_size(*e) {
                Some((n, sz))
            } else {
                let (m, sz) = int_array_shape(tcx, *e)?;
                Some((n * m, sz))
            }
        }
        _ => None,
    }
}

fn dump(tcx: TyCtxt<'_>, out_dir: &str) {
    let cx = Cx { tcx };
    let crate_name = tcx.crate_name(rustc_hir::def_id::LOCAL_CRATE).to_string();
    let crate_types = tcx.crate_types();
    let is_bin = crate_types.iter().any(|t| matches!(t, rustc_session::config::CrateType::Executable));
    let is_pm = crate_types.iter().any(|t| matches!(t, rustc_session::config::CrateType::ProcMacro));
    if is_pm {
        return;
    }
    let kind = if is_bin { "bin" } else { "lib" };

    let mut fns: Vec<String> = Vec::new();
    let mut consts: Vec<String> = Vec::new();
    let mut adts: Vec<String> = Vec::new();
    let sm = tcx.sess.source_map();

    for ldid in tcx.hir_body_owners() {
        let did: DefId = ldid.to_def_id();
        let dk = tcx.def_kind(did);
        match dk {
            DefKind::Fn | DefKind::AssocFn | DefKind::Closure => {
                if matches!(dk, DefKind::Closure) && tcx.is_coroutine(did) {
                    continue;
                }
                let body: &Body<'_> = tcx.optimized_mir(did);
                let span = tcx.def_span(did);
                let lo = sm.lookup_char_pos(span.lo());
                let body_span = body.span;
                let hi = sm.lookup_char_pos(body_span.hi());
                let file = format!("{}", lo.file.name.prefer_local_unconditionally());
                let mut parts: Vec<String> = Vec::new();
                parts.push(format!("\"id\":{}", jstr(&path_of(tcx, did))));
                parts.push(format!("\"file\":{}", jstr(&file)));
                parts.push(format!("\"line\":{}", lo.line));
                parts.push(format!("\"end\":{}", hi.line));
                let kname = match dk {
                    DefKind::Fn => "fn",
                    DefKind::AssocFn => "assoc",
                    _ => "closure",
                };
                parts.push(format!("\"kind\":\"{}\"", kname));
                if matches!(dk, DefKind::Closure) {
                    let parent = tcx.typeck_root_def_id(did);
                    parts.push(format!("\"root\":{}", jstr(&path_of(tcx, parent))));
                }
                if matches!(dk, DefKind::Fn | DefKind::AssocFn) {
                    let vis = tcx.visibility(did);
                    parts.push(format!("\"pub\":{}", vis.is_public()));
                    let sig = tcx.fn_sig(did).skip_binder().skip_binder();
                    parts.push(format!("\"unsafe\":{}", !sig.safety().is_safe()));
                    if let DefKind::AssocFn = dk {
                        if let Some(imp) = tcx.impl_of_assoc(did) {
                            let self_ty = tcx.type_of(imp).skip_binder();
                            parts.push(format!("\"self_ty\":{}", jstr(&ty_str(self_ty))));
                            if let Some(tr) = tcx.impl_opt_trait_ref(imp) {
                                parts.push(format!("\"trait\":{}", jstr(&path_of(tcx, tr.skip_binder().def_id))));
                            }
                        }
                    }
                }
                let attrs = tcx.codegen_fn_attrs(did);
                let tf: Vec<String> = attrs.target_features.iter().map(|f| jstr(f.name.as_str())).collect();
                parts.push(format!("\"tf\":{}", jlist(&tf)));
                let tfe: Vec<String> = attrs
                    .target_features
                    .iter()
                    .filter(|f| matches!(f.kind, rustc_middle::middle::codegen_fn_attrs::TargetFeatureKind::Enabled))
                    .map(|f| jstr(f.name.as_str()))
                    .collect();
                parts.push(format!("\"tfe\":{}", jlist(&tfe)));
                parts.push(format!("\"nargs\":{}", body.arg_count));
                {
                    let generics = tcx.generics_of(did);
                    let mut names: Vec<String> = Vec::new();
                    for i in 0..generics.count() {
                        let p = generics.param_at(i, tcx);
                        names.push(jstr(p.name.as_str()));
                    }
                    parts.push(format!("\"gen\":{}", jlist(&names)));
                }
                let locals: Vec<String> = body.local_decls.iter().map(|d| jstr(&ty_str(d.ty))).collect();
                parts.push(format!("\"locals\":{}", jlist(&locals)));
                let mut names: Vec<String> = Vec::new();
                for vdi in &body.var_debug_info {
                    if let mir::VarDebugInfoContents::Place(p) = &vdi.value {
                        names.push(format!("[{},{}]", jstr(vdi.name.as_str()), cx.place(body, p)));
                    }
                }
                parts.push(format!("\"names\":{}", jlist(&names)));
                parts.push(format!("\"blocks\":{}", cx.body(did, body)));
                // promoted constants of generic functions cannot be evaluated here (their generic
                // parameters are unbound): dump their bodies so the consumer can evaluate them
                if tcx.generics_of(did).count() > 0 {
                    let proms = tcx.promoted_mir(did);
                    let mut ps: Vec<String> = Vec::new();
                    for (pi, pb) in proms.iter_enumerated() {
                        let plocals: Vec<String> = pb.local_decls.iter().map(|d| jstr(&ty_str(d.ty))).collect();
                        ps.push(format!("\"{}\":{{\"locals\":{},\"blocks\":{}}}", pi.index(), jlist(&plocals), cx.body(did, pb)));
                    }
                    if !ps.is_empty() {
                        parts.push(format!("\"promoteds\":{{{}}}", ps.join(",")));
                    }
                }
                fns.push(format!("{{{}}}", parts.join(",")));
            }
            DefKind::Const { .. } | DefKind::AssocConst { .. } | DefKind::Static { .. } => {
                dump_const(&cx, ldid, dk, &mut consts);
            }
            _ => {}
        }
    }

    // ADT definitions (structs/enums/unions) of the local crate
    for id in tcx.hir_free_items() {
        let did = id.owner_id.to_def_id();
        let dk = tcx.def_kind(did);
        if matches!(dk, DefKind::Struct | DefKind::Enum | DefKind::Union) {
            let adt = tcx.adt_def(did);
            let mut vars: Vec<String> = Vec::new();
            for v in adt.variants() {
                let mut fs: Vec<String> = Vec::new();
                for f in v.fields.iter() {
                    let fty = tcx.type_of(f.did).skip_binder();
                    fs.push(format!(
                        "{{\"name\":{},\"ty\":{},\"pub\":{}}}",
                        jstr(&f.name.to_string()),
                        jstr(&ty_str(fty)),
                        f.vis.is_public()
                    ));
                }
                vars.push(format!("{{\"name\":{},\"fields\":{}}}", jstr(&v.name.to_string()), jlist(&fs)));
            }
            let span = tcx.def_span(did);
            let lo = sm.lookup_char_pos(span.lo());
            adts.push(format!(
                "{{\"id\":{},\"kind\":{},\"file\":{},\"line\":{},\"variants\":{}}}",
                jstr(&path_of(tcx, did)),
                jstr(&format!("{:?}", dk)),
                jstr(&format!("{}", lo.file.name.prefer_local_unconditionally())),
                lo.line,
                jlist(&vars)
            ));
        }
    }

    let feats: Vec<String> = FEATURES.get().map(|v| v.iter().map(|s| jstr(s)).collect()).unwrap_or_default();

    let out = format!(
        "{{\"crate\":{},\"kind\":\"{}\",\"features\":{},\"fns\":{},\"consts\":{},\"adts\":{}}}\n",
        jstr(&crate_name),
        kind,
        jlist(&feats),
        jlist(&fns),
        jlist(&consts),
        jlist(&adts)
    );
    let path = format!("{}/{}-{}.json", out_dir, crate_name, kind);
    let tmp = format!("{}.tmp{}", path, std::process::id());
    std::fs::write(&tmp, out).expect("mirfacts: write");
    std::fs::rename(&tmp, &path).expect("mirfacts: rename");
}

fn dump_const<'tcx>(cx: &Cx<'tcx>, ldid: LocalDefId, dk: DefKind, consts: &mut Vec<String>) {
    let tcx = cx.tcx;
    let did = ldid.to_def_id();
    // skip generic consts
    let generics = tcx.generics_of(did);
    if generics.count() > 0 || generics.parent_count > 0 && {
        // assoc const in a generic impl
        let mut g = generics;
        let mut any = g.own_params.len() > 0;
        while let Some(p) = g.parent {
            g = tcx.generics_of(p);
            any |= g.own_params.iter().any(|p| !matches!(p.kind, ty::GenericParamDefKind::Lifetime));
        }
        any
    } {
        return;
    }
    let t = tcx.type_of(did).skip_binder();
    let interesting = t.is_integral() || t.is_bool() || t.is_char() || int_array_shape(tcx, t).is_some()
        || t.is_ref()
        || (matches!(dk, DefKind::Static { .. }) && matches!(t.kind(), ty::Adt(a, _) if a.is_enum() || a.is_struct()));
    if !interesting {
        return;
    }
    let span = tcx.def_span(did);
    let sm = tcx.sess.source_map();
    let lo = sm.lookup_char_pos(span.lo());
    let mut parts: Vec<String> = vec![
        format!("\"id\":{}", jstr(&path_of(tcx, did))),
        format!("\"ty\":{}", jstr(&ty_str(t))),
        format!("\"file\":{}", jstr(&format!("{}", lo.file.name.prefer_local_unconditionally()))),
        format!("\"line\":{}", lo.line),
    ];
    match dk {
        DefKind::Static { .. } => {
            if let Ok(alloc) = tcx.eval_static_initializer(did) {
                let inner = alloc.inner();
                if let Some((n, esz)) = int_array_shape(tcx, t) {
                    if let Some(b) = cx.read_alloc_bytes(inner, 0, n * esz) {
                        parts.push(format!("\"bytes\":{},\"esz\":{}", jstr(&hex(&b)), esz));
                    }
                } else if let Some(sz) = prim_size(t) {
                    if let Some(b) = cx.read_alloc_bytes(inner, 0, sz) {
                        parts.push(format!("\"bytes\":{},\"esz\":{}", jstr(&hex(&b)), sz));
                    }
                } else if matches!(t.kind(), ty::Adt(a, _) if (a.is_enum() || a.is_struct()) && !path_of(tcx, a.did()).contains("sync::")) && !tcx.is_mutable_static(did) {
                    // immutable static of a plain struct / enum type: its initial value is its value
                    let aid = tcx.reserve_and_set_memory_alloc(alloc);
                    let cv = ConstValue::Indirect { alloc_id: aid, offset: rustc_abi::Size::ZERO };
                    let sv = cx.const_value(cv, t);
                    if sv.starts_with("\"adt2\"") {
                        parts.push(sv);
                    }
                }
            }
        }
        _ => {
            if let Ok(cv) = tcx.const_eval_poly(did) {
                parts.push(cx.const_value(cv, t));
            }
        }
    }
    consts.push(format!("{{{}}}", parts.join(",")));
}
