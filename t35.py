import sys,os,glob,time
sys.path.insert(0,'/verif')
from rules import core, yamlval
from rules import facts as F
d,_=F.ensure_facts(['cli'])
P=core.Program('cli',d['cli'])
t=time.time()
for r in yamlval.rule_yaml_validator({'cli':P},'quick'):
    for v in r.violations: print(v.key,'|',v.msg[:400])
    for i in r.instances: print(i)
print(time.time()-t)
