import sys,os,glob,time,re
sys.path.insert(0,'/verif')
from rules import core
from rules.dataflow import backward_slice, local_defs
from rules.core import op_place
P=core.Program('cli',sorted(glob.glob('/verif/build/facts/*/cli'),key=os.path.getmtime)[-1])
n=0
for f in P.fns.values():
    if f.crate!='lib': continue
    defs=local_defs(f)
    for bi,b in enumerate(f.blocks):
        for s in b['s']:
            if s[0]=='a' and s[2][0]=='bin' and s[2][1] in ('Shr','Shl'):
                amt=s[2][3]
                pl=op_place(amt)
                if pl is None: continue
                sl=backward_slice(f,pl[0],max_nodes=30)
                cs=[c for _,c in sl.calls if c and ('trailing_zeros' in c or 'ilog2' in c or 'leading_zeros' in c)]
                if cs and (sl.fields or sl.params):
                    n+=1
                    print(f.id, f.loc(s[3]), cs, sorted(sl.fields)[:5], sorted(sl.names)[:6])
print(n)
