import sys,os,time,glob
sys.path.insert(0,'/verif')
from rules import core, tables
d=sorted(glob.glob('/verif/build/facts/*/cli'))[-1]
P=core.Program('cli',d)
for fn in (tables.rule_tables, tables.rule_select_in_byte, tables.rule_block_popcount_lanes, tables.rule_popcount_portable_units):
    t=time.time()
    for r in fn({'cli':P},'quick'):
        print(r.rule, r.instances, [(v.key,v.msg) for v in r.violations], round(time.time()-t,1))
