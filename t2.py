import sys,os,collections
sys.path.insert(0,'/verif')
from rules import core
P=core.Program('cli',sorted(__import__('glob').glob('/verif/build/facts/*/cli'))[-1])
names=sys.argv[1:]
cnt=collections.Counter()
for n in names:
    for f in P.find(n):
        seen=set()
        st=[f.id]
        while st:
            x=st.pop()
            if x in seen: continue
            seen.add(x)
            g=P.fns[x]
            for c in g.calls:
                ids=P._resolve_id(c)
                if ids: st.extend(ids)
                else: cnt[c.name]+=1
for k,v in sorted(cnt.items()): print(v,k)
