import sys,os,glob,time,re
sys.path.insert(0,'/verif')
from rules import core
from rules.dataflow import backward_slice, local_defs_full, _fields_of
from rules.core import op_place
from rules import facts as F
d,_=F.ensure_facts(['cli'])
P=core.Program('cli',d['cli'])
tot=0; unproven=[]
for f in sorted(P.fns.values(), key=lambda f:f.id):
    if f.crate=='bin' and 'bench' in f.id: continue
    defs=local_defs_full(f)
    live=f.reachable_blocks(True)
    for bi,b in enumerate(f.blocks):
        t=b['t']
        if t[0]!='assert' or t[3]!='BoundsCheck' or bi not in live: continue
        pl=op_place(t[1])
        if pl is None: continue
        ds=[x for x in defs.get(pl[0],[]) if x[1]=='rv' and x[2][0]=='bin' and x[2][1]=='Lt']
        if not ds: continue
        rv=ds[-1][2]
        idx,ln=rv[2],rv[3]
        if ln[0]!='k' or 'v' not in ln[1]: continue   # only constant-length arrays
        N=ln[1]['v']
        if idx[0]=='k': continue
        tot+=1
        ip=op_place(idx)
        ids=[x for x in defs.get(ip[0],[]) if x[1]=='rv']
        ok=False; why=''
        # follow copies
        cur=ip[0]; hops=0
        while hops<4:
            dd=[x for x in defs.get(cur,[]) if x[1]=='rv']
            if len(dd)==1 and dd[0][2][0]=='use' and op_place(dd[0][2][1]) and not op_place(dd[0][2][1])[1]:
                cur=op_place(dd[0][2][1])[0]; hops+=1
            else: break
        dd=[x for x in defs.get(cur,[]) if x[1]=='rv']
        if len(dd)==1:
            r=dd[0][2]
            if r[0]=='bin' and r[1]=='Rem' and r[3][0]=='k' and r[3][1].get('v',1e9)<=N and f.locals[cur] in ('usize','u8','u16','u32','u64'): ok=True; why='rem'
            if r[0]=='bin' and r[1]=='BitAnd' and r[3][0]=='k' and r[3][1].get('v',1e9)<N: ok=True; why='mask'
            if r[0]=='bin' and r[1]=='Shr': ok=True; why='shr?'
            if r[0]=='cast' and r[1]=='IntToInt':
                q=op_place(r[2])
                if q and f.locals[q[0]] in ('u8','bool') and N>=256: ok=True; why='u8'
        if not ok:
            unproven.append((f.id, f.loc(b['l']), N, f.local_name(cur), [x[2][:2] for x in dd][:2]))
print(tot, len(unproven))
for u in unproven[:80]: print(u)
