import sys,os,glob,time
sys.path.insert(0,'/verif')
from rules import core, utf8tab
P=core.Program('cli',sorted(glob.glob('/verif/build/facts/*/cli'))[-1])
t=time.time()
for r in utf8tab.rule_utf8({'cli':P},'quick'):
    for v in r.violations: print(v.key,'|',v.msg)
    print(r.instances, time.time()-t)
t=time.time()
for r in utf8tab.rule_json_utf8({'cli':P},'quick'):
    for v in r.violations: print(v.key,'|',v.msg)
    print(r.instances, time.time()-t)
