import sys,os,time
sys.path.insert(0,'/verif')
from rules import core, jsonsemi
P=core.Program('cli',sorted(__import__('glob').glob('/verif/build/facts/*/cli'))[-1])
for kind in ('standard','simple'):
    t=time.time()
    rs=jsonsemi.rule_json({'cli':P},'quick',kind)
    for r in rs:
        print(kind, r.instances, [ (v.key,v.msg) for v in r.violations], r.cells, time.time()-t)
