import sys
sys.path.insert(0,'/verif')
from rules import core, charmap
from rules import facts as F
d,_=F.ensure_facts(['cli'])
P=core.Program('cli',d['cli'])
for r in charmap.rule_writer_registry({'cli':P},'quick'):
    for v in r.violations: print(v.key,'|',v.msg[:300])
    for i in r.instances: print(i)
