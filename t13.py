import sys,os,time,glob,re
sys.path.insert(0,'/verif')
from rules import core, cgrules
d=sorted(glob.glob('/verif/build/facts/*/cli'))[-1]
P=core.Program('cli',d)
E19=[r'^(json|yaml|dsv|text)::', r'^jq::parser::parse', r'^bin::(jq_runner|yq_runner|output|jq_locate|yq_locate)::']
for r in cgrules.rule_rec({'cli':P},'quick',entries=E19): 
    for v in r.violations: print(v.key, '|', v.loc)
    print(r.instances[-1])
for r in cgrules.rule_panicguard({'cli':P},'quick',entries=E19): 
    print(len(r.violations))
    for v in r.violations[:80]: print(v.key)
