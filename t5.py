import sys,os,time
sys.path.insert(0,'/verif')
from rules import core
from rules.minimir import *
import glob
d=sorted(glob.glob('/verif/build/facts/*/cli'))[-1]
P=core.Program('cli',d)
I=Interp(P)
for pos,c in [(0,0xff),(13,0x81),(63,0x7f)]:
    words=[0]*8
    words[pos//8]=c<<(8*(pos%8))
    print(I.call('bits::scan::block_popcount_avx2',[Slice(words,0,8,8)]), bin(c).count('1'))
print(I.call('bits::scan::block_popcount_avx2',[Slice([2**64-1]*8,0,8,8)]))
print(I.call('bits::scan::block_popcount_portable',[Slice([2**64-1]*8,0,8,8)]))
