import sys,os,glob,time,re
sys.path.insert(0,'/verif')
from rules import core
from rules.dataflow import backward_slice, local_defs
from rules.core import op_place
P=core.Program('cli',sorted(glob.glob('/verif/build/facts/*/cli'),key=os.path.getmtime)[-1])
for f in P.fns.values():
    if f.crate!='lib': continue
    for bi,b in enumerate(f.blocks):
        for s in b['s']:
            if s[0]=='a' and s[2][0]=='bin' and s[2][1] in ('Div','Rem','Shr','BitAnd'):
                for side in (3,):
                    pl=op_place(s[2][side])
                    k=s[2][side][1] if s[2][side][0]=='k' else None
                    names=set(); fields=set()
                    if pl is not None:
                        sl=backward_slice(f,pl[0],max_nodes=25)
                        names=sl.names; fields=sl.fields
                        items=[c.get('item') for c in sl.consts if c.get('item')]
                    else:
                        items=[k.get('item')] if k and k.get('item') else []
                    if any(re.search(r'rate|RATE',x or '') for x in list(names)+list(fields)+items):
                        print(s[2][1], f.id, f.loc(s[3]), sorted(fields)[:4], items[:2], sorted(names)[:4])
