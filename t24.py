import sys,os,glob,time
sys.path.insert(0,'/verif')
from rules import core, structrules
P=core.Program('cli',sorted(glob.glob('/verif/build/facts/*/cli'),key=os.path.getmtime)[-1])
for r in structrules.rule_tailmask({'cli':P},'quick'):
    for v in r.violations: print(v.key,'|',v.msg[:200], v.loc)
    for i in r.instances: print(i)
