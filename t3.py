import sys,os,collections
sys.path.insert(0,'/verif')
from rules import core
from rules.minimir import *
P=core.Program('cli',sorted(__import__('glob').glob('/verif/build/facts/*/cli'))[-1])
I=Interp(P, effect_fns=['BitWriter::write_0','BitWriter::write_1','BitWriter::write_bit'])
ST='json::standard::State'
def state(i): return Adt(ST,i,['InJson','InString','InEscape','InValue'][i],[])
# reference
for c in [ord('{'),ord('a'),ord('"'),ord(' ')]:
    for s in range(4):
        r=I.call('json::standard::state_machine',[c,state(s)])
        print(chr(c),s,r)
# SSE2 classify
v=Vec([ord('a')]*16)
print(I.call('json::simd::x86::classify_chars',[v]))
cl=I.call('json::simd::x86::classify_chars',[Vec([ord('{')]*16)])
I.reset()
r=I.call('json::simd::x86::process_chunk_standard',[cl,state(0),Opaque('ib'),Opaque('bp'),Slice([ord('{')],0,1)])
print(r,I.effects)
I.reset()
r=I.call('json::pfsm_optimized::pfsm_process_chunk_optimized',[Slice([ord('{')],0,1),Adt('json::pfsm_tables::PfsmState',0,'InJson',[]),Opaque('ib'),Opaque('bp')])
print(r,I.effects)
