import sys,os,glob,time
sys.path.insert(0,'/verif')
from rules import core, structrules
from rules import facts as F
d,_=F.ensure_facts(['cli'])
P=core.Program('cli',d['cli'])
for r in structrules.rule_cursor_coupling({'cli':P},'quick'):
    for v in r.violations: print(v.key,'|',v.msg[:200], v.loc)
    for i in r.instances: print(i)
