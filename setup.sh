#!/bin/sh
# Build the framework offline from files on disk: the rustc_private driver, then warm the
# per-configuration dependency caches (and the fact cache for the current tree).
set -e
cd "$(dirname "$0")"
export CARGO_NET_OFFLINE=true
(cd mirfacts && cargo +nightly build --release --offline)
python3 - <<'PY'
import sys
sys.path.insert(0, '.')
from rules import facts as F
F.ensure_facts(F.QUICK_CONFIGS)
print("facts ready for", F.QUICK_CONFIGS)
PY
