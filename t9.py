import sys,os,time,glob,re
sys.path.insert(0,'/verif')
from rules import core, cgrules
d=sorted(glob.glob('/verif/build/facts/*/cli'))[-1]
P=core.Program('cli',d)
t=time.time()
roots=[f.id for f in P.fns.values() if f.pub or f.id=='bin::main']
res,G=cgrules.analyse_recursion(P,roots)
print(len(res),'SCCs', time.time()-t)
print('guards:',{k:v for k,v in G.kind.items()})
ng=0
for comp,cyc,kinds,ung,det in res:
    if cyc:
        ng+=1
        print('UNGUARDED', len(comp), cyc[:6], kinds)
print(ng)
