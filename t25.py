import sys,os,glob,time
sys.path.insert(0,'/verif')
from rules import core, cgrules
P=core.Program('cli',sorted(glob.glob('/verif/build/facts/*/cli'),key=os.path.getmtime)[-1])
for rule in (cgrules.rule_align, cgrules.rule_alloc):
    for r in rule({'cli':P},'quick'):
        for v in r.violations: print(v.key,'|',v.msg[:200], v.loc)
        for i in r.instances[:30]: print(i)
