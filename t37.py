import sys,os,glob,time,re,json
sys.path.insert(0,'/verif')
from rules import core
from rules import facts as F
d,_=F.ensure_facts(['cli'])
P=core.Program('cli',d['cli'])
def consts(f):
    out=[]
    def walk(x):
        if isinstance(x,list):
            if len(x)==2 and x[0]=='k' and isinstance(x[1],dict): out.append(x[1])
            else:
                for y in x: walk(y)
    for b in f.blocks:
        walk(b["s"]); walk(b["t"])
    return out
W=[]
for f in P.fns.values():
    cs=consts(f)
    strs={c.get('str') for c in cs if 'str' in c}
    if '\\"' in strs and '\\\\' in strs:
        W.append(f.id)
print(len(W))
for w in sorted(W): print(w)
