import sys,os,glob,time
sys.path.insert(0,'/verif')
from rules import core, charmap
P=core.Program('cli',sorted(glob.glob('/verif/build/facts/*/cli'))[-1])
t=time.time()
for r in charmap.rule_json_writers({'cli':P},'quick'):
    for v in r.violations: print(v.key,'|',v.msg)
    print(r.instances, time.time()-t)
