import sys,os,glob,time,re
sys.path.insert(0,'/verif')
from rules import core
from rules.dataflow import backward_slice, local_defs
from rules.core import op_place
P=core.Program('cli',sorted(glob.glob('/verif/build/facts/*/cli'),key=os.path.getmtime)[-1])
for f in sorted(P.fns.values(), key=lambda f:f.id):
    if f.crate!='lib': continue
    hits=[]
    for bi,b in enumerate(f.blocks):
        for s in b['s']:
            if s[0]=='a' and s[2][0]=='bin' and ((s[2][1]=='Rem' and s[2][3][0]=='k' and s[2][3][1].get('v')==64) or (s[2][1]=='BitAnd' and s[2][3][0]=='k' and s[2][3][1].get('v')==63)):
                pl=op_place(s[2][2])
                if pl is None: continue
                sl=backward_slice(f,pl[0],max_nodes=10,through_calls=False)
                nm=set(sl.names)|set(sl.fields)|{e[2] for e in pl[1] if isinstance(e,list) and e[0]=='f'}
                if any(re.fullmatch(r'len|bit_len|num_bits|n_bits|length',x) for x in nm):
                    hits.append(s[3])
    if hits: print(f.id, f.loc(hits[0]), len(hits))
