import sys,os,time,glob
sys.path.insert(0,'/verif')
from rules import core
d=sorted(glob.glob('/verif/build/facts/*/cli'))[-1]
P=core.Program('cli',d)
for f in P.fns.values():
    for c in f.calls:
        if 'bytemuck' in c.name:
            print(f.id, f.loc(c.line), c.name, c.gargs)
