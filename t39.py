import sys
sys.path.insert(0,'/verif')
from rules import core, t1
from rules import facts as F
cfgs=['nodefault','scalar','portable','serde','full']
d,_=F.ensure_facts(cfgs)
for c in cfgs:
    P=core.Program(c,d[c])
    for r in t1.rule_t1({c:P},'thorough'):
        print(c, len(r.instances), [ (v.key, v.msg[:200]) for v in r.violations])
