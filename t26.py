import sys,os,glob,time
sys.path.insert(0,'/verif')
from rules import core, locate
from rules import facts as F
d,_=F.ensure_facts(['cli'])
P=core.Program('cli',d['cli'])
t=time.time()
for mod,mode in (('json::locate','Jq'),('yaml::locate','Yq')):
    for r in locate.rule_locate({'cli':P},'quick',module=mod,mode=mode):
        for v in r.violations: print(v.key,'|',v.msg[:300])
        print(r.instances[-1:], time.time()-t)
