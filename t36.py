import sys,os,glob,time
sys.path.insert(0,'/verif')
from rules import core, yamlquote
from rules import facts as F
d,_=F.ensure_facts(['cli'])
P=core.Program('cli',d['cli'])
t=time.time()
for r in yamlquote.rule_yaml_quoting({'cli':P},'quick'):
    for v in r.violations: print(v.key,'|',v.msg[:300])
    for i in r.instances:
        if 'VIOLATED' not in i: print(i)
print(time.time()-t)
