#!/bin/bash
# usage: [MUT_BASE=<commit>] mut.sh <patch> <check-id>...  -- run checks against a scratch copy with the patch applied
patch=$1; shift
base=${MUT_BASE:-$(git -C /repo rev-parse HEAD)}
[ -d /tmp/mut/.git ] || [ -f /tmp/mut/.git ] || git -C /repo worktree add -q --detach /tmp/mut $base  # scratch worktree, outside /repo and /verif; remove with `git -C /repo worktree remove --force /tmp/mut`
cd /tmp/mut && git checkout -q -- . && git checkout -q --detach $base && git apply "$patch" || { echo "PATCH DOES NOT APPLY on $base"; exit 2; }
cd /verif
for id in "$@"; do VERIF_REPO=/tmp/mut VERIF_BUILD=/tmp/mutbuild ./check $id 2>&1 | grep -v "^KNOWN-FINDING" | tail -5 | cut -c1-420; done
cd /tmp/mut && git checkout -q -- .
