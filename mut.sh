#!/bin/bash
# usage: mut.sh <patch> <check-id>...   -- run checks against a scratch copy with the patch applied
set -e
patch=$1; shift
cd /tmp/mut && git checkout -q -- . && git apply "$patch"
cd /verif
for id in "$@"; do VERIF_REPO=/tmp/mut VERIF_BUILD=/tmp/mutbuild ./check $id 2>&1 | tail -6; done
cd /tmp/mut && git checkout -q -- .
